#!/bin/bash
# usage: tools/run_all.sh <tier> [ids...]  -- runs the checks one after the other, without touching evidence files
TIER=$1; shift
IDS=${@:-C02 C06 C14 C16 C19 C07 C05 C04 C13 C12 C17 C08 C15 C18 C10 C09 C03 C11 C01}
for id in $IDS; do
  s=$(date +%s)
  ./check $id --tier $TIER --no-evidence > /tmp/runall_$id.log 2>&1; rc=$?
  e=$(date +%s)
  echo "$id tier=$TIER exit=$rc wall=$((e-s))s $(grep -c VIOLATION /tmp/runall_$id.log) violations; $(grep 'tier=' /tmp/runall_$id.log | tail -1 | cut -c1-160)"
  grep -E "VIOLATION|HARNESS|violation sig" /tmp/runall_$id.log | cut -c1-300 | head -6
done
