#!/usr/bin/env python3
"""Regenerates MANIFEST.json from the check modules that exist (checks/cNN.py with a MANIFEST dict or defaults)."""
import json, os, re, sys
HERE = os.path.dirname(os.path.dirname(os.path.abspath(__file__)))
sys.path.insert(0, HERE)
props = [json.loads(l) for l in open(os.path.join(HERE, 'properties.jsonl'))]
INFO = json.load(open(os.path.join(HERE, 'tools', 'manifest_info.json')))
checks = []
na = []
for p in props:
    pid = p['id']
    path = os.path.join(HERE, 'checks', pid.lower() + '.py')
    info = INFO.get(pid)
    if os.path.exists(path) and info and info.get('claimed', True):
        checks.append(dict(
            property_id=pid,
            quick_cmd='./check %s --tier quick' % pid,
            thorough_cmd='./check %s --tier thorough' % pid,
            evidence_file='/verif/evidence/%s.json' % pid,
            replay_cmd_template='./check %s --replay {path}' % pid,
            engine=info['engine'],
            level_claimed=dict(category='model_checking', text=info['text'], design_ref=info['design_ref']),
            level_note=info['note'],
            technique=info['technique'],
        ))
    else:
        na.append(dict(property_id=pid, reason=(info or {}).get('na_reason', 'check not built yet in this session; no claim is made for this property')))
m = dict(
    version=1,
    setup_cmd='/venv/bin/python tools/setup.py',
    hooks=dict(guard='MISTLETOE_VERIF', enable='no source hooks: the explorers import /repo as it is and read global state by introspection',
               baseline_off_cmd='cd /repo && /venv/bin/python -m pytest -q -p no:cacheprovider test', source_commits=[], add_only=True),
    engines=[
        dict(name='E1-words', path='mc/core.py', serves_properties=[c['property_id'] for c in checks if 'E1' in c['engine']],
             kind_free_text='explicit enumeration of all words over small token alphabets up to a length bound, of edit-distance-1 neighbourhoods of the spec corpus and of pumping families, executed on the real library from pristine global state'),
        dict(name='E2-trees', path='mc/trees.py', serves_properties=[c['property_id'] for c in checks if 'E2' in c['engine']],
             kind_free_text='Korat-style enumeration of all document trees up to N nodes / depth D times all spellings within a deviation bound, with a writer that records lines and a reference HTML serialiser'),
        dict(name='E3-history', path='mc/history.py', serves_properties=[c['property_id'] for c in checks if 'E3' in c['engine']],
             kind_free_text='explicit-state breadth-first search over the real library global state; transitions call the real API (enter/exit renderer, parse, parse with injected fault); states canonicalised and deduplicated'),
    ],
    checks=checks,
    notes='All checks import mistletoe from /repo working tree at run time; VERIF_SEED only rotates shard order. Exit 2 = harness error.',
    not_applicable=na,
)
json.dump(m, open(os.path.join(HERE, 'MANIFEST.json'), 'w'), indent=1)
print('checks', [c['property_id'] for c in checks], 'na', [n['property_id'] for n in na])
