#!/usr/bin/env python3
"""Rewrites section 8 of DESIGN.md (between the markers) from seeded/*/meta.json."""
import json, glob, os, re
HERE = os.path.dirname(os.path.dirname(os.path.abspath(__file__)))
rows = []
for d in sorted(glob.glob(os.path.join(HERE, 'seeded', '*'))):
    m = json.load(open(os.path.join(d, 'meta.json')))
    ev = m.get('evaluation', {})
    caught = []
    for c, v in ev.get('checks', {}).items():
        if v['exit'] == 1:
            caught.append('%s %s (%s; %d cases)' % (c, v['tier'], v['violations'][0]['sig'][:60] if v['violations'] else '?', v['violations'][0]['cases'] if v['violations'] else 0))
        else:
            caught.append('%s %s: **missed**' % (c, v['tier']))
    hist = m.get('history', '')
    rows.append('| %s | %s | %s | %s | %s |' % (os.path.basename(d), m['property'], m['summary'].replace('\n', ' ').replace('|', '\\|')[:230],
                                              m.get('needs', '').replace('\n', ' ').replace('|', '\\|')[:160], '; '.join(caught) + (' - ' + hist if hist else '')))
table = ('| id | property | change (written by an independent sub-agent that saw only the property text) | needs to manifest | result of the registered check on the patched tree |\n'
         '|---|---|---|---|---|\n' + '\n'.join(rows))
p = os.path.join(HERE, 'DESIGN.md')
s = open(p).read()
a, b = '<!-- seeded-table-begin -->', '<!-- seeded-table-end -->'
if a in s:
    s = s[:s.index(a) + len(a)] + '\n' + table + '\n' + s[s.index(b):]
    open(p, 'w').write(s)
print(len(rows), 'rows')
