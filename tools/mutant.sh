#!/bin/bash
# usage: tools/mutant.sh <patch.diff> <tier> <check ids...>   -- applies the patch to a scratch worktree of /repo,
# runs the repository's own tests there, then the named checks against it (VERIF_REPO), and removes the worktree.
set -u
PATCH=$(realpath "$1"); TIER=$2; shift 2
WT=/tmp/mut_$$
git -C /repo worktree add -q --detach $WT HEAD || exit 3
cleanup() { git -C /repo worktree remove --force $WT; }
trap cleanup EXIT
if ! git -C $WT apply "$PATCH"; then echo "PATCH DOES NOT APPLY"; exit 3; fi
if [ "${SKIP_TESTS:-0}" != 1 ]; then
  (cd $WT && /venv/bin/python -m pytest -q -p no:cacheprovider -x 2>&1 | tail -1)
fi
cd /verif
for id in "$@"; do
  VERIF_REPO=$WT ./check $id --tier $TIER --no-evidence 2>&1 | grep -E "VIOLATION|HARNESS|KNOWN|tier=|violation sig" | cut -c1-260
  echo "  -> $id exit=${PIPESTATUS[0]}"
done
