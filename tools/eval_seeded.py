#!/usr/bin/env python3
"""Confirm a seeded change and run checks against it.

usage: tools/eval_seeded.py <dir with patch.diff, demo.py, meta.json> [--tier quick] [--checks C05,C04] [--keep <name>]

Steps (all in a scratch worktree of /repo under /tmp, removed afterwards):
  1. patch applies to /repo HEAD          2. repository test suite still passes with it
  3. demo.py exits 0 on /repo             4. demo.py exits 1 on the patched worktree
  5. the named checks (default: the property's own) are run with VERIF_REPO=<worktree>
With --keep the directory is copied to /verif/seeded/<name>/ and meta.json is extended with what was run."""
import json, os, subprocess, sys, shutil, argparse, re, time
ap = argparse.ArgumentParser()
ap.add_argument('dir')
ap.add_argument('--tier', default='quick')
ap.add_argument('--checks')
ap.add_argument('--keep')
a = ap.parse_args()
d = os.path.abspath(a.dir)
meta = json.load(open(os.path.join(d, 'meta.json')))
prop = meta['property']
checks = a.checks.split(',') if a.checks else [prop]
wt = '/tmp/seed_eval_%d' % os.getpid()
run = lambda *c, **k: subprocess.run(c, capture_output=True, text=True, **k)
assert run('git', '-C', '/repo', 'worktree', 'add', '-q', '--detach', wt, 'HEAD').returncode == 0
res = dict(repo_head=run('git', '-C', '/repo', 'rev-parse', '--short', 'HEAD').stdout.strip())
try:
    p = run('git', '-C', wt, 'apply', os.path.join(d, 'patch.diff'))
    res['patch_applies'] = p.returncode == 0
    if not res['patch_applies']:
        print('PATCH DOES NOT APPLY', p.stderr[:500]); sys.exit(3)
    t = run('/venv/bin/python', '-m', 'pytest', '-q', '-p', 'no:cacheprovider', 'test', cwd=wt)
    res['tests'] = t.stdout.strip().splitlines()[-1] if t.stdout.strip() else t.stderr[-200:]
    res['tests_pass'] = t.returncode == 0
    d0 = run('/venv/bin/python', os.path.join(d, 'demo.py'), '/repo', cwd='/tmp')
    d1 = run('/venv/bin/python', os.path.join(d, 'demo.py'), wt, cwd='/tmp')
    res['demo_on_repo_exit'] = d0.returncode
    res['demo_on_patched_exit'] = d1.returncode
    res['demo_patched_output'] = (d1.stdout + d1.stderr)[-600:]
    res['checks'] = {}
    for c in checks:
        t0 = time.time()
        p = run('./check', c, '--tier', a.tier, '--no-evidence', cwd='/verif', env=dict(os.environ, VERIF_REPO=wt))
        vio = re.findall(r'violation sig=(.*?) cases=(\d+) smallest=(.{0,200})', p.stdout)
        res['checks'][c] = dict(tier=a.tier, exit=p.returncode, wall_s=round(time.time() - t0, 1),
                                violations=[dict(sig=v[0], cases=int(v[1]), smallest=v[2]) for v in vio][:4],
                                harness_error='HARNESS-ERROR' in p.stdout)
finally:
    run('git', '-C', '/repo', 'worktree', 'remove', '--force', wt)
ok = res['tests_pass'] and res['demo_on_repo_exit'] == 0 and res['demo_on_patched_exit'] == 1
res['confirmed'] = ok
print(json.dumps(res, indent=1)[:3000])
if a.keep and ok:
    dst = os.path.join('/verif/seeded', a.keep)
    os.makedirs(dst, exist_ok=True)
    for f in ('patch.diff', 'demo.py'):
        if os.path.abspath(d) != os.path.abspath(dst):
            shutil.copy(os.path.join(d, f), os.path.join(dst, f))
    if os.path.abspath(d) == os.path.abspath(dst) and meta.get('evaluation'):
        # re-evaluation after the check was strengthened: keep what the first contact looked like
        old = meta['evaluation'].get('checks', {})
        missed = [c for c, v in old.items() if v['exit'] != 1]
        if missed and not meta.get('history'):
            meta['history'] = 'missed on first contact by ' + ', '.join(missed) + ' (then strengthened, see section 8)'
    meta['evaluation'] = res
    meta['what_was_run'] = ['git apply patch.diff in a scratch worktree of /repo', 'pytest test (must pass)', 'demo.py /repo (exit 0)', 'demo.py <patched> (exit 1)'] + \
                           ['VERIF_REPO=<patched> ./check %s --tier %s --no-evidence' % (c, a.tier) for c in checks]
    json.dump(meta, open(os.path.join(dst, 'meta.json'), 'w'), indent=1)
    print('kept as', dst)
