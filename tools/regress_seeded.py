#!/usr/bin/env python3
"""Re-run every kept seeded change against the CURRENT checks and the CURRENT /repo HEAD.

usage: tools/regress_seeded.py [--only C03,C09] [--jobs 2] [--out seeded/REGRESSION.json]

For each /verif/seeded/<id>/: a scratch worktree of /repo HEAD is made under /tmp, patch.diff is applied (a patch that no
longer applies - /repo has been repaired since the change was written - is recorded as 'does-not-apply' and skipped), the
property's quick check runs with VERIF_REPO=<worktree>, the worktree is removed. Expected: exit 1 (VIOLATION) every time.
Nothing is written to evidence/; the summary goes to --out."""
import argparse
import concurrent.futures
import json
import os
import re
import subprocess
import sys
import time

HERE = os.path.dirname(os.path.dirname(os.path.abspath(__file__)))
ap = argparse.ArgumentParser()
ap.add_argument('--only')
ap.add_argument('--jobs', type=int, default=2)
ap.add_argument('--out', default=os.path.join(HERE, 'seeded', 'REGRESSION.json'))
a = ap.parse_args()
only = set(a.only.split(',')) if a.only else None


def run(*c, **k):
    return subprocess.run(c, capture_output=True, text=True, **k)


def one(sid):
    d = os.path.join(HERE, 'seeded', sid)
    meta = json.load(open(os.path.join(d, 'meta.json')))
    prop = meta['property']
    wt = '/tmp/seed_regress_%d_%s' % (os.getpid(), sid)
    if run('git', '-C', '/repo', 'worktree', 'add', '-q', '--detach', wt, 'HEAD').returncode != 0:
        return sid, dict(property=prop, result='worktree-failed')
    try:
        if run('git', '-C', wt, 'apply', os.path.join(d, 'patch.diff')).returncode != 0:
            return sid, dict(property=prop, result='does-not-apply')
        t0 = time.time()
        p = run('./check', prop, '--tier', 'quick', '--no-evidence', cwd=HERE,
                env=dict(os.environ, VERIF_REPO=wt, VERIF_NPROC=str(max(2, 16 // a.jobs))))
        sig = re.findall(r'violation sig=(.*?) cases=(\d+)', p.stdout)
        return sid, dict(property=prop, result={1: 'detected', 0: 'MISSED'}.get(p.returncode, 'harness-error'), exit=p.returncode,
                         wall_s=round(time.time() - t0, 1), signature=sig[0][0] if sig else None)
    finally:
        run('git', '-C', '/repo', 'worktree', 'remove', '--force', wt)


ids = sorted(x for x in os.listdir(os.path.join(HERE, 'seeded')) if os.path.isdir(os.path.join(HERE, 'seeded', x)))
if only:
    ids = [i for i in ids if i.split('-')[0] in only]
res = {}
with concurrent.futures.ThreadPoolExecutor(a.jobs) as ex:
    for sid, r in ex.map(one, ids):
        res[sid] = r
        print(sid, r['result'], r.get('signature') or '', flush=True)
head = run('git', '-C', '/repo', 'rev-parse', '--short', 'HEAD').stdout.strip()
summary = dict(repo_head=head, total=len(res), detected=sum(r['result'] == 'detected' for r in res.values()),
               missed=[s for s, r in res.items() if r['result'] == 'MISSED'],
               does_not_apply=[s for s, r in res.items() if r['result'] == 'does-not-apply'],
               other=[s for s, r in res.items() if r['result'] not in ('detected', 'MISSED', 'does-not-apply')], results=res)
json.dump(summary, open(a.out, 'w'), indent=1)
print(json.dumps({k: v for k, v in summary.items() if k != 'results'}))
sys.exit(1 if summary['missed'] or summary['other'] else 0)
