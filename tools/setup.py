"""setup_cmd: verify the vendored corpus and that the framework imports; nothing is built or cached."""
import hashlib, os, sys, glob
HERE = os.path.dirname(os.path.dirname(os.path.abspath(__file__)))
sys.dont_write_bytecode = True
raw = open(os.path.join(HERE, 'corpus', 'commonmark-0.30.json'), 'rb').read()
assert hashlib.sha256(raw).hexdigest() == 'ae6129f3ce3caf4f99cf4f9a5ad3558a309652b5b887171013e2bf0797289b98', 'corpus checksum'
for f in glob.glob(os.path.join(HERE, '*', '*.py')):
    compile(open(f).read(), f, 'exec')
os.makedirs(os.path.join(HERE, 'evidence'), exist_ok=True)
os.makedirs(os.path.join(HERE, 'replays'), exist_ok=True)
print('setup ok')
