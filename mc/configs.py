"""Registry of the bundled renderers and their option spaces (the 'configurations' quantifier)."""
import itertools


def renderer_class(name):
    if name == 'Html':
        from mistletoe.html_renderer import HtmlRenderer as R
    elif name == 'Markdown':
        from mistletoe.markdown_renderer import MarkdownRenderer as R
    elif name == 'LaTeX':
        from mistletoe.latex_renderer import LaTeXRenderer as R
    elif name == 'Ast':
        from mistletoe.ast_renderer import AstRenderer as R
    elif name == 'Toc':
        from mistletoe.contrib.toc_renderer import TocRenderer as R
    elif name == 'GithubWiki':
        from mistletoe.contrib.github_wiki import GithubWikiRenderer as R
    elif name == 'MathJax':
        from mistletoe.contrib.mathjax import MathJaxRenderer as R
    elif name == 'Pygments':
        from mistletoe.contrib.pygments_renderer import PygmentsRenderer as R
    elif name == 'Jira':
        from mistletoe.contrib.jira_renderer import JiraRenderer as R
    elif name == 'XWiki20':
        from mistletoe.contrib.xwiki20_renderer import XWiki20Renderer as R
    else:
        raise KeyError(name)
    return R


def _bools(*names):
    return [dict(zip(names, v)) for v in itertools.product([False, True], repeat=len(names))]


# groups: (renderer, constructor kwargs that decide the token set, [render-time option dicts])
# The render-time options are plain attributes that the constructor only stores; the explorer parses once
# per group and renders once per option dict after assigning the attributes (replay uses the constructor).
GROUPS = [
    ('Html', dict(process_html_tokens=True), _bools('html_escape_double_quotes', 'html_escape_single_quotes')),
    ('Html', dict(process_html_tokens=False), _bools('html_escape_double_quotes', 'html_escape_single_quotes')),
    ('Markdown', {}, [dict(normalize_whitespace=n, max_line_length=m) for n in (False, True) for m in (None, 1, 5, 40)]),
    ('LaTeX', {}, [{}]),
    ('Ast', {}, [{}]),
    ('Toc', {}, [dict(omit_title=True), dict(omit_title=False)]),
    ('GithubWiki', {}, [{}]),
    ('MathJax', {}, [{}]),
    ('Pygments', {}, [dict(fail_on_unsupported_language=False), dict(fail_on_unsupported_language=True)]),
    ('Jira', {}, [{}]),
    ('XWiki20', {}, [{}]),
]

# lighter set for deep alphabets: one option set per renderer class that differs in parsing or overrides
GROUPS_CORE = [
    ('Html', dict(process_html_tokens=True), [dict(html_escape_double_quotes=False, html_escape_single_quotes=False)]),
    ('Html', dict(process_html_tokens=False), [dict(html_escape_double_quotes=True, html_escape_single_quotes=True)]),
    ('Markdown', {}, [dict(normalize_whitespace=False, max_line_length=None), dict(normalize_whitespace=True, max_line_length=5)]),
    ('LaTeX', {}, [{}]),
    ('Ast', {}, [{}]),
    ('Jira', {}, [{}]),
    ('XWiki20', {}, [{}]),
]


def n_configs(groups):
    return sum(len(g[2]) for g in groups)


def make(name, kwargs):
    return renderer_class(name)(**kwargs)
