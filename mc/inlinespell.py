"""E2, inline leaf part: the spelling product of every inline construct, each with the HTML that CommonMark 0.30 fixes
for it (sections 2.4, 2.5, 6.1, 6.3-6.8), placed in block contexts. Complements mc/inlines.py (which nests constructs
in one spelling each): here one construct, all of its spellings. Deterministic finite products, nothing sampled.

A case is (family, markdown, expected inline html, label). Only destinations made of characters whose URL escaping the
spec examples fix are used (letters, digits, / : . ? = # @ + - , ; & ( ) and, percent-encoded, space, backslash,
brackets), because the precise percent-encoding of other characters is left open by the spec."""
import itertools


def esc(s):
    return s.replace('&', '&amp;').replace('<', '&lt;').replace('>', '&gt;').replace('"', '&quot;')


# ------------------------------------------------------------------------------------------- code spans (6.1)
def _code_content(c):
    c = c.replace('\n', ' ')
    if len(c) >= 2 and c[0] == ' ' and c[-1] == ' ' and c.strip(' ') != '':
        c = c[1:-1]
    return c


def code_spans():
    contents = ['c', ' c ', '  c  ', ' c', 'c ', ' ', '  ', 'a`b', 'a``b', ' `c` ', ' ``c`` ', 'a\nb', 'a \n b', 'a\\', '<b>', '&amp;', '*e*', '[l](/u)', 'a  b', '\\`', '"q"']
    for n, c in itertools.product((1, 2, 3), contents):
        runs = {len(r) for r in c.replace(' ', '\0').replace('\n', '\0').split('\0') for r in _bt_runs(r)}
        if n in runs or c.startswith('`') or c.endswith('`'):
            continue
        md = '`' * n + c + '`' * n
        yield ('code', md, '<code>%s</code>' % esc(_code_content(c)), dict(n=n, content=c))
    for md in ('`c', 'c`', '``c`', '`c``', '```c``', '`` c `'):
        yield ('code-not', md, esc(md), dict(md=md))


def _bt_runs(s):
    import re
    return re.findall(r'`+', s)


# ------------------------------------------------------------------------------------------- autolinks (6.5)
def autolinks():
    uris = [('http://foo.bar.baz', None), ('irc://foo.bar:2233/baz', None), ('MAILTO:FOO@BAR.BAZ', None), ('a+b+c:d', None),
            ('made-up-scheme://foo,bar', None), ('https://../', None), ('localhost:5001/foo', None), ('ab:', None),
            ('https://example.com/\\[\\', 'https://example.com/%5C%5B%5C'), ('http://x.y/?a=1&b=2', 'http://x.y/?a=1&amp;b=2'),
            ('x2345678901234567890123456789012:r', None), ('http://x.y/#f', None), ('a.b-c+d:e', None)]
    for u, href in uris:
        yield ('autolink', '<%s>' % u, '<a href="%s">%s</a>' % (href if href is not None else esc(u), esc(u)), dict(uri=u))
    for m in ('foo@bar.example.com', 'foo+special@Bar.baz-bar0.com', 'a.b_c@d.e', 'x-y@z.w'):
        yield ('autolink-mail', '<%s>' % m, '<a href="mailto:%s">%s</a>' % (esc(m), esc(m)), dict(mail=m))
    yield ('autolink-not', '<foo\\+@bar.example.com>', '&lt;foo+@bar.example.com&gt;', dict(text='<foo\\+@bar.example.com>'))
    for t in ('<>', '< http://foo.bar >', '<m:abc>', '<foo.bar.baz>', '<http://foo.bar/baz bim>',
              '<x23456789012345678901234567890123:r>', '<1a:b>', 'http://example.com', 'foo@bar.example.com', '<http://a.b/c\nd>', '<http://a.b/c\td>'):
        yield ('autolink-not', t, esc(t), dict(text=t))


# ------------------------------------------------------------------------------------------- character references (2.5)
def charrefs():
    ok = [('&nbsp;', '\xa0'), ('&amp;', '&amp;'), ('&copy;', '\xa9'), ('&AElig;', '\xc6'), ('&Dcaron;', '\u010e'), ('&frac34;', '\xbe'),
          ('&HilbertSpace;', '\u210b'), ('&DifferentialD;', '\u2146'), ('&ClockwiseContourIntegral;', '\u2232'), ('&ngE;', '\u2267\u0338'),
          ('&lt;', '&lt;'), ('&gt;', '&gt;'), ('&quot;', '&quot;'), ('&ouml;', '\xf6'),
          ('&#35;', '#'), ('&#1234;', '\u04d2'), ('&#992;', '\u03e0'), ('&#0;', '\ufffd'), ('&#9;', '\t'), ('&#65;', 'A'), ('&#0000065;', 'A'),
          ('&#X22;', '&quot;'), ('&#XD06;', '\u0d06'), ('&#xcab;', '\u0cab'), ('&#x41;', 'A'), ('&#x000041;', 'A'), ('&#xD800;', '\ufffd'),
          ('&#1114112;', '\ufffd'), ('&#x10FFFF;', '\U0010ffff'), ('&#60;', '&lt;'), ('&#38;', '&amp;'),
          ('&#128;', '\x80'), ('&#1;', '\x01'), ('&#xFFFE;', '\ufffe'), ('&#x7f;', '\x7f'),
          ('&#xDFFF;', '\ufffd'), ('&#xDFFE;', '\ufffd'), ('&#xD7FF;', '\ud7ff'), ('&#xE000;', '\ue000'), ('&#57343;', '\ufffd'), ('&#1114111;', '\U0010ffff'),
          ('&#x123456;', '\ufffd'), ('&#1234567;', '\ufffd')]
    for md, want in ok:
        yield ('charref', md, want, dict(ref=md))
    for md in ('&nbsp', '&x;', '&#87654321;', '&#abcdef0;', '&ThisIsNotDefined;', '&hi?;', '&#;', '&#x;', '&#x1234567;', '&;', '& amp;', '&amp ;',
               '&#12a;', '&#xg;', '&copy', '&#', '&', '&#x0000041;', '&#00000065;', '&#x1234567;'):
        yield ('charref-not', md, esc(md), dict(text=md))


# ------------------------------------------------------------------------------------------- backslash escapes (2.4)
def escapes():
    for ch in '!"#$%&\'()*+,-./:;<=>?@[\\]^_`{|}~':
        yield ('escape', 'a\\' + ch + 'b', 'a' + esc(ch) + 'b', dict(ch=ch))
    for ch in ('\u2192', 'A', 'a', ' ', '3', '\u03c6', '\xab'):
        yield ('escape-not', 'x\\' + ch + 'y', 'x\\' + ch + 'y', dict(ch=ch))
    prevented = [('\\*not emphasized*', '*not emphasized*'), ('\\<br/> not a tag', '&lt;br/&gt; not a tag'), ('\\[not a link](/foo)', '[not a link](/foo)'),
                 ('\\`not code`', '`not code`'), ('\\&ouml; not a character entity', '&amp;ouml; not a character entity'),
                 ('\\\\*emphasis*', '\\<em>emphasis</em>'), ('\\_x_', '_x_'), ('*a\\**', '<em>a*</em>'), ('\\![i](/u)', '!<a href="/u">i</a>'),
                 ('\\<http://a.b>', '&lt;http://a.b&gt;'), ('a\\~~b~~', 'a~~b~~')]
    for md, want in prevented:
        yield ('escape-prevents', md, want, dict(md=md))


# ------------------------------------------------------------------------------------------- line breaks (6.7, 6.8)
def breaks():
    cases = [('foo  \nbaz', 'foo<br />\nbaz'), ('foo\\\nbaz', 'foo<br />\nbaz'), ('foo       \nbaz', 'foo<br />\nbaz'), ('foo  \n     bar', 'foo<br />\nbar'),
             ('foo\\\n     bar', 'foo<br />\nbar'), ('*foo  \nbar*', '<em>foo<br />\nbar</em>'), ('*foo\\\nbar*', '<em>foo<br />\nbar</em>'),
             ('`code  \nspan`', '<code>code   span</code>'), ('`code\\\nspan`', '<code>code\\ span</code>'), ('<a href="foo  \nbar">', '<a href="foo  \nbar">'),
             ('<a href="foo\\\nbar">', '<a href="foo\\\nbar">'), ('foo\nbaz', 'foo\nbaz'), ('foo \n baz', 'foo\nbaz'), ('foo \nbaz', 'foo\nbaz'),
             ('foo\\', 'foo\\'), ('foo  ', 'foo'), ('a\\\\\nb', 'a\\\nb'), ('**s  \nt** u', '<strong>s<br />\nt</strong> u'),
             ('[t  \nu](/d)', '<a href="/d">t<br />\nu</a>'),
             # inside an image description a break of either kind is flattened to white space in the alt text (the specification has no
             # example; cmark writes a space, commonmark.js a line ending - a space is expected here, as cmark does)
             ('![a  \nb](/i)', '<img src="/i" alt="a b" />'), ('![a\\\nb](/i)', '<img src="/i" alt="a b" />'), ('![a\nb](/i)', '<img src="/i" alt="a b" />'),
             ('![*a  \nb*](/i "t")', '<img src="/i" alt="a b" title="t" />'), ('[![a  \nb](/i)](/d)', '<a href="/d"><img src="/i" alt="a b" /></a>'),
             # an odd number of backslashes before the line ending: the last one makes the hard break
             ('a\\\\\\\nb', 'a\\<br />\nb'), ('a\\\\\\\\\nb', 'a\\\\\nb'), ('a\\\\\\\\\\\nb', 'a\\\\<br />\nb'), ('C:\\\\t\\\\\\\nis', 'C:\\t\\<br />\nis')]
    for md, want in cases:
        yield ('break', md, want, dict(md=md))


# ------------------------------------------------------------------------------------------- inline links / images (6.3, 6.4)
def links():
    texts = [('t', 't', 't'), ('t *e*', 't <em>e</em>', 't e'), ('`c`', '<code>c</code>', 'c'), ('a [b] c', 'a [b] c', 'a [b] c'), ('a \\] c', 'a ] c', 'a ] c'),
             ('', '', ''), ('a <b>x</b> c', 'a <b>x</b> c', 'a <b>x</b> c'), ('<!-- k -->', '<!-- k -->', '<!-- k -->')]
    dests = [('/u', '/u'), ('</u v>', '/u%20v'), ('<>', ''), ('', ''), ('/u(a)b', '/u(a)b'), ('/u\\(a', '/u(a'), ('<a(b>', 'a(b'),
             ('http://x.y/?q=1#f', 'http://x.y/?q=1#f'), ('/a&amp;b', '/a&amp;b'), ('#frag', '#frag'), ('<a\\>b>', 'a%3Eb'),
             # numeric references at the boundaries of the valid range inside a destination (U+FFFD percent-encoded)
             ('/u&#xDFFF;', '/u%EF%BF%BD'), ('/u&#xD800;', '/u%EF%BF%BD'), ('/u&#xD7FF;', '/u%ED%9F%BF'), ('/u&#xE000;', '/u%EE%80%80'),
             ('/u&#0;', '/u%EF%BF%BD'), ('/u&#1114112;', '/u%EF%BF%BD'), ('/u&#x10FFFF;', '/u%F4%8F%BF%BF')]
    titles = [('', None), (' "T"', 'T'), (" 'T'", 'T'), (' (T)', 'T'), (' "a \\" b"', 'a " b'), ('\n"T"', 'T'), (' "T"  ', 'T'), (' "x &amp; \'y\'"', "x & 'y'"),
              ("  '(p)'", '(p)'), (' ""', None), (' (f\\(x\\))', 'f(x)'), (' "\\"q\\""', '"q"')]
    for (tm, th, tp), (dm, dh), (ttm, tt), lead, bang in itertools.product(texts, dests, titles, ('', ' '), ('', '!')):
        if dm == '' and ttm and not ttm.startswith((' ', '\n')):
            continue
        if dm == '' and ttm:
            continue            # '[t]( "T")': a title without destination - the spec's grammar allows it, kept out (rare and intricate)
        md = '%s[%s](%s%s%s)' % (bang, tm, lead, dm, ttm)
        title = ''
        if tt is not None:
            title = ' title="%s"' % esc(tt)
        if bang:
            html = '<img src="%s" alt="%s"%s />' % (dh, esc(tp), title)
        else:
            html = '<a href="%s"%s>%s</a>' % (dh, title, th)
        yield ('image' if bang else 'link', md, html, dict(text=tm, dest=lead + dm, title=ttm))
    nots = ['[t] (/u)', '[t](/u v)', '[t](/u "T" x)', '[t](<u>x)', '[t](/u', '[t]/u)', '[t](/u "T)', '[a](<b)c>', '[t](/u "a"b")']
    for md in nots:
        yield ('link-not', md, esc(md).replace('&lt;u&gt;', '<u>'), dict(md=md))
    yield ('link-in-link', '[a [b](/x) c](/y)', '[a <a href="/x">b</a> c](/y)', {})
    yield ('link-in-link', '[a ![i [b](/x)](/z) c](/y)', '[a <img src="/z" alt="i b" /> c](/y)', {})
    yield ('link-in-link', '![a [b](/x) c](/y)', '<img src="/y" alt="a b c" />', {})


# ------------------------------------------------------------------------------------------- a backslash or '!' directly before a construct
def prefixes():
    """an escaped backslash (a literal backslash) or an exclamation mark directly in front of each construct: the
    construct must be recognised all the same and the prefix must stay in the output"""
    cons = [('`c`', '<code>c</code>'), ('*e*', '<em>e</em>'), ('**s**', '<strong>s</strong>'), ('~~d~~', '<del>d</del>'), ('[t](/u)', '<a href="/u">t</a>'),
            ('![a](/i)', '<img src="/i" alt="a" />'), ('<http://a.b>', '<a href="http://a.b">http://a.b</a>'), ('<b>', '<b>'), ('&amp;', '&amp;'),
            ('<!-- c -->', '<!-- c -->'), ('</b>', '</b>'), ('[r]', '[r]')]
    for md, html in cons:
        yield ('prefix', '\\\\' + md, '\\' + html, dict(prefix='escaped backslash', construct=md))
        yield ('prefix', '\\\\\\\\' + md, '\\\\' + html, dict(prefix='two escaped backslashes', construct=md))
        if not md.startswith('['):
            yield ('prefix', '!' + md, '!' + html, dict(prefix='!', construct=md))
        yield ('prefix', 'x!' + '\\!' + md, 'x!!' + html, dict(prefix='! and an escaped !', construct=md))
        yield ('prefix', '!' + '\\*' + md, '!*' + html, dict(prefix='! and an escaped *', construct=md))
        if not md.startswith('`'):
            yield ('prefix', '!`x`' + md, '!<code>x</code>' + html, dict(prefix='! and a code span', construct=md))
    yield ('prefix', '[a](/url (b (c))', '[a](/url (b (c))', dict(prefix=None, construct='title in parentheses with a bare parenthesis'))
    yield ('prefix', '[a](/url (b \\(c))', '<a href="/url" title="b (c">a</a>', dict(prefix=None, construct='title in parentheses with an escaped parenthesis'))


FAMILIES = dict(prefix=prefixes, code=code_spans, autolink=autolinks, charref=charrefs, escape=escapes, brk=breaks, link=links)
CONTEXTS = ['paragraph', 'paragraph-mid', 'atx heading', 'tight list item', 'block quote', 'emphasis', 'table cell']


def in_context(case, ctx):
    """-> (markdown, expected html) or None"""
    fam, md, html, label = case
    multi = '\n' in md
    if ctx == 'paragraph':
        if md.startswith('```') and multi:
            return None         # a line starting with three backticks and holding no further backtick opens a fenced block
        return md + '\n', '<p>' + html + '</p>\n'
    if ctx == 'paragraph-mid':
        return 'w ' + md + ' z\n', '<p>w ' + html + ' z</p>\n'
    if ctx == 'atx heading':
        if multi or md.endswith((' ', '\\')) or md.endswith('#'):
            return None
        return '## ' + md + '\n', '<h2>' + html + '</h2>\n'
    if ctx == 'tight list item':
        return '- w ' + md.replace('\n', '\n  ') + '\n- x\n', '<ul>\n<li>w ' + html + '</li>\n<li>x</li>\n</ul>\n'
    if ctx == 'block quote':
        return '> w ' + md.replace('\n', '\n> ') + '\n', '<blockquote>\n<p>w ' + html + '</p>\n</blockquote>\n'
    if ctx == 'emphasis':
        if fam in ('brk',) or md.startswith(('*', '_')) or md.endswith(('*', '_', '\\', ' ')) or '*' in md:
            return None
        return 'w *x ' + md + ' y* z\n', '<p>w <em>x ' + html + ' y</em> z</p>\n'
    if ctx == 'table cell':
        if multi or '|' in md or md.endswith((' ', '\\')):
            return None
        return ('| h | k |\n| --- | --- |\n| w ' + md + ' | y |\n',
                '<table>\n<thead>\n<tr>\n<th align="left">h</th>\n<th align="left">k</th>\n</tr>\n</thead>\n<tbody>\n<tr>\n'
                '<td align="left">w ' + html + '</td>\n<td align="left">y</td>\n</tr>\n</tbody>\n</table>\n')
    raise KeyError(ctx)


SHARDS = 8


def jobs():
    return [('inlinespell', fam, sh) for fam in FAMILIES for sh in range(SHARDS if fam == 'link' else 1)]


def cases_of_job(job):
    _, fam, sh = job
    n = SHARDS if fam == 'link' else 1
    for i, case in enumerate(FAMILIES[fam]()):
        if i % n == sh:
            yield case
