"""Finite input spaces shared by the E1 checks: cluster alphabets, the line alphabet, the edit-distance-1
neighbourhood of the spec corpus and the pumping family. Everything here is a deterministic enumeration."""
import itertools

# ---- cluster alphabets (tokens may be multi-character) ------------------------------------------
ALPHABETS = {
    'emph': ['a', ' ', '*', '_'],
    'block': ['>', '-', ' ', 'a', '\n', '#', '`', '1.', '|', '\t', '=', '+'],
    'link': ['[', ']', '(', ')', '!', 'a', ':', '\n', '<', '>', '"', ' '],
    'html': ['<', '>', '!', '-', '?', 'a', '/', '\n', '[', ']', '=', '"', ' '],
    'misc': ['`', '$', '~', '|', '&', '\\', '#', ';', 'x', '\n', ' ', ':', '-', '='],
    'code': ['`', 'a', '\n', ' ', '~', '\t', '>', '-'],
    'uni': ['a', '1', '.', '“', '\xa0', ' ', '\xa3', '\xe9', '日', '*', '_', '[', ']'],
    'wiki': ['[[', ']]', '|', 'a', ' ', '$', '{{', '}}', '/', '\n'],
    # character references that stand for white space (a paragraph made of them has no words) next to block structure
    'ent': ['&#32;', '&nbsp;', '&#9;', '&#10;', '&amp;', '> ', '- ', '\n', ' ', 'a', '#', '|', '`', '*'],
}

LINES = ['foo', '# h', '---', '===', '- a', '  b', '    c', '```', '> q', '1. x', '', '| a | b |', '|---|---|',
         '[l]: /u', '[l]', '<div>', '***', '  - n', '~~~', '2) y', '   ', '+', '_e_ `c`', '\\', '</div>', '<!-- c',
         '-->', '   foo', '* * *', '>']
LINES_C01_EXTRA = ['$m$ [[a|b]]', '{{m}}', '\tt', '``` py', '![f $m$ <b>](/i)']

EDIT_SMALL = ['*', '_', '`', '[', ']', '(', ')', '<', '>', '\n', ' ', '\\', '-', '#', '{', '%']
EDIT_LARGE = EDIT_SMALL + ['!', '"', "'", '&', ';', '|', '~', '=', '+', '1', '.', ':', '/', '\t', 'a', '$', '}', '%s', '{0}',
                           '^', '@', '    ', '```', '> ', '- ', '\n\n', '[a]: b\n', '1. ', '---', '<!--']


def edit1(text, tokens):
    """All strings at edit distance <= 1 (in the token alphabet) of text: the text itself, every deletion of one
    character, every insertion of a token at every position, every replacement of one character by a token."""
    yield text
    n = len(text)
    for i in range(n):
        yield text[:i] + text[i + 1:]
    for i in range(n + 1):
        for t in tokens:
            yield text[:i] + t + text[i:]
    for i in range(n):
        for t in tokens:
            if t != text[i]:
                yield text[:i] + t + text[i + 1:]


def edit1_count(n, ntok):
    return 1 + n + (n + 1) * ntok + n * ntok


# ---- pumping family u . w^n . v ------------------------------------------------------------------
PUMP_TOKENS = ['*', '_', '[', ']', '(', ')', '`', '<', '>', '!', '\\', 'a', ' ', '\n', '> ', '- ', '1. ', '#', '|', '~',
               '&', '\t', '**', '](', '<a ', '"', '![', '$', '{{', '[[', '=', '+ ', ':', '-', '| --- ', '|---', ' | ', '--- | ', ' a=b', ' a="b"', ' #', '~~', '&#', 'a;', '- - ', '\\']
PUMP_U = ['', '[', '`', '<a ', '*', '> ', '- ', '![', '<!--', '```\n', '# ', '| a |\n|---|\n', 'a | b\n']
PUMP_V = ['', ']', '`', '>', ')', '*', '\n\n[a]: b', '](u)', '\n', ' -=-\n', 'x |\n', 'x', '#', '"']


def pump_words(maxlen):
    for L in range(1, maxlen + 1):
        for w in itertools.product(PUMP_TOKENS, repeat=L):
            yield ''.join(w)


def lines_text(ws):
    return '\n'.join(ws) + '\n'


# ---- "same text in two roles" family: one short string placed in two different syntactic roles of one document
ROLE_CONTEXTS = [
    ('plain', 'w {c} z'), ('whole-paragraph', '{c}'), ('code-span', 'w `{c}` z'), ('emphasis', 'w *{c}* z'), ('strong', 'w **{c}** z'),
    ('strikethrough', 'w ~~{c}~~ z'), ('heading', '# {c}'), ('setext', '{c}\n==='), ('list-item', '- {c}'), ('quote', '> {c}'),
    ('table-cell', '| {c} | x |\n| --- | --- |\n| y | {c} |'), ('link-text', 'w [{c}](/u) z'), ('link-dest', 'w [t]({c}) z'),
    ('link-dest-angle', 'w [t](<{c}>) z'), ('link-title', 'w [t](/u "{c}") z'), ('image-alt', 'w ![{c}](/i) z'),
    ('image-src', 'w ![a]({c}) z'), ('autolink', 'w <http://a.b/{c}> z'), ('fence-content', '```\n{c}\n```'), ('fence-info', '```{c}\nx\n```'),
    ('indented-code', '    {c}'), ('html-block', '<div>{c}</div>'), ('refdef-title', '[r]: /u "{c}"\n\n[r]'), ('escaped', 'w \\{c} z'),
    # one construct inside another (a renderer may treat an element differently depending on what it is nested in)
    ('heading-code', '# w `{c}` z'), ('setext-code', 'w `{c}`\n---'), ('emphasis-code', 'w *x `{c}`* z'), ('link-text-code', 'w [`{c}`](/u) z'),
    ('table-cell-code', '| `{c}` | x |\n| --- | --- |'), ('heading-link-dest', '## [t]({c})'), ('heading-image-src', '## ![a]({c})'),
    ('strong-link-title', '**[t](/u "{c}")**'), ('quote-list-code', '> - `{c}`'), ('strikethrough-emphasis', '~~*{c}*~~'),
]


def role_documents(strings, triples=False):
    """every ordered pair of roles for every string: ctxA(s) blank-line ctxB(s)"""
    for s_ in strings:
        for (na, a) in ROLE_CONTEXTS:
            for (nb, b) in ROLE_CONTEXTS:
                yield (s_, na, nb), a.replace('{c}', s_) + '\n\n' + b.replace('{c}', s_) + '\n'
