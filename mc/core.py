"""Shared driver for the bounded-exhaustive explorers (see DESIGN.md section 2).

A check module provides
    ID            property id
    TECHNIQUE     short string
    jobs(tier)    -> list of picklable job descriptors (shards of the finite space)
    run_job(job)  -> Result (executed in a long-lived worker; must call core.fresh() per evaluation)
    replay(case)  -> None if the case passes, else a failure dict (used by --replay, from pristine)
and optionally
    describe(tier) -> dict of bounds that goes into the evidence
    finalize(agg, tier) -> list of extra failures (cross-shard oracles)
"""
import os
import sys
import json
import time
import signal
import hashlib
import traceback
import subprocess
import multiprocessing as mp

VERIF = os.path.dirname(os.path.dirname(os.path.abspath(__file__)))
REPO = os.environ.get('VERIF_REPO', '/repo')
NPROC = int(os.environ.get('VERIF_NPROC', '16'))
MAX_KEEP = 12          # failures kept per signature per job
sys.dont_write_bytecode = True


def import_repo():
    """Import mistletoe from the working tree under test and snapshot its pristine state."""
    if REPO not in sys.path[:1]:
        sys.path.insert(0, REPO)
    import mistletoe
    here = os.path.realpath(os.path.dirname(os.path.dirname(mistletoe.__file__)))
    if here != os.path.realpath(REPO):
        raise SystemExit('HARNESS-ERROR mistletoe imported from %s, not %s' % (here, REPO))
    from mc import pristine
    if pristine._snap is None:
        pristine.snapshot()
    return mistletoe


def fresh():
    from mc import pristine
    pristine.restore()


class EvalTimeout(BaseException):
    pass


def _on_alarm(signum, frame):
    raise EvalTimeout()


class time_limit:
    """Wall-clock budget for one evaluation. So that a heavily loaded machine cannot turn a healthy evaluation into a
    'timeout', the alarm only counts once the worker itself has burnt (almost) the whole budget as CPU time - a hang
    in this pure-Python code base is a busy loop - or once six times the budget has passed on the wall clock."""

    def __init__(self, seconds):
        self.seconds = seconds

    def _alarm(self, signum, frame):
        cpu = time.process_time() - self.cpu0
        wall = time.time() - self.wall0
        if cpu >= 0.9 * self.seconds or wall >= 6 * self.seconds:
            raise EvalTimeout()
        signal.setitimer(signal.ITIMER_REAL, max(0.2, self.seconds - cpu))

    def __enter__(self):
        self.cpu0 = time.process_time()
        self.wall0 = time.time()
        signal.signal(signal.SIGALRM, self._alarm)
        signal.setitimer(signal.ITIMER_REAL, self.seconds)

    def __exit__(self, *a):
        signal.setitimer(signal.ITIMER_REAL, 0)
        return False


class Result:
    """What one job (shard) reports back."""

    def __init__(self):
        self.states = 0          # distinct inputs / trees / canonical states visited
        self.transitions = 0     # executions of the real code
        self.validated = 0       # oracle comparisons model <-> implementation
        self.failures = {}       # key -> [count, [failure dicts]]
        self.outcomes = {}       # vacuity guard: outcome class -> count
        self.samples = []
        self.skipped = {}        # reason -> count (side conditions)
        self.capped = None
        self.extra = {}

    def fail(self, case, sig, detail='', kf=None, expected=None, observed=None):
        key = (kf or '', sig)
        ent = self.failures.setdefault(key, [0, []])
        ent[0] += 1
        if len(ent[1]) < MAX_KEEP:
            f = dict(case=case, sig=sig, detail=detail, kf=kf)
            if expected is not None:
                f['expected'] = expected
            if observed is not None:
                f['observed'] = observed
            ent[1].append(f)

    def outcome(self, o, n=1):
        self.outcomes[o] = self.outcomes.get(o, 0) + n

    def skip(self, why, n=1):
        self.skipped[why] = self.skipped.get(why, 0) + n

    def sample(self, case, limit=3):
        if len(self.samples) < limit:
            self.samples.append(case)


def _worker_init():
    import_repo()


def _run(args):
    modname, job = args
    mod = sys.modules.get(modname) or __import__(modname, fromlist=['x'])
    try:
        r = mod.run_job(job)
        return ('ok', job, r.__dict__)
    except EvalTimeout:
        return ('err', job, 'timeout outside an evaluation window\n' + traceback.format_exc())
    except Exception:
        return ('err', job, traceback.format_exc())


def case_size(case):
    return len(json.dumps(case, ensure_ascii=False, sort_keys=True, default=str))


def load_known():
    with open(os.path.join(VERIF, 'known_findings.json')) as f:
        return json.load(f)


def repo_head():
    try:
        h = subprocess.run(['git', '-C', REPO, 'rev-parse', '--short', 'HEAD'], capture_output=True, text=True).stdout.strip()
        d = subprocess.run(['git', '-C', REPO, 'status', '--porcelain', '--untracked-files=no'], capture_output=True, text=True).stdout.strip()
        return h + ('+dirty' if d else '')
    except Exception:
        return 'unknown'


def main(mod, argv=None):
    import argparse
    ap = argparse.ArgumentParser()
    ap.add_argument('--tier', default=os.environ.get('VERIF_TIER', 'quick'), choices=['quick', 'thorough'])
    ap.add_argument('--replay')
    ap.add_argument('--no-recheck', action='store_true')
    ap.add_argument('--no-evidence', action='store_true', help='do not rewrite the evidence file (used for scratch runs)')
    a = ap.parse_args(argv)
    try:
        seed = int(os.environ.get('VERIF_SEED', '0'))
    except ValueError:
        seed = 0
    if a.replay:
        return replay_main(mod, a.replay)
    return drive(mod, a.tier, seed, recheck=not a.no_recheck, write_evidence=not a.no_evidence)


def replay_main(mod, path):
    import_repo()
    with open(path) as f:
        rec = json.load(f)
    fresh()
    res = mod.replay(rec['case'])
    if res is None:
        print('REPLAY property=%s result=pass' % mod.ID)
        return 0
    out = dict(sig=res.get('sig'), detail=res.get('detail'), expected=res.get('expected'), observed=res.get('observed'), kf=res.get('kf'))
    print('REPLAY property=%s result=fail %s' % (mod.ID, json.dumps(out, ensure_ascii=True, sort_keys=True, default=str)))
    if res.get('kf'):
        print('KNOWN-FINDING: property=%s %s' % (mod.ID, res['kf']))
        return 0
    print('VIOLATION property=%s replay=%s' % (mod.ID, path))
    return 1


def drive(mod, tier, seed, recheck=True, write_evidence=True):
    t0 = time.time()
    pid = mod.ID
    import_repo()
    errors = []
    if hasattr(mod, 'explore'):
        # the check runs its own multi-round exploration (E3: level-synchronous BFS) and hands back a Result
        agg, njobs, nproc = mod.explore(tier, seed)
    else:
        agg, njobs, nproc = run_pool(mod, tier, seed, errors)
    if errors:
        for job, tb in errors[:3]:
            sys.stdout.write('HARNESS-ERROR property=%s job=%r\n%s\n' % (pid, job, tb))
        return 2
    if hasattr(mod, 'finalize'):
        fresh()
        mod.finalize(agg, tier)

    known = [k for k in load_known().get('findings', []) if k.get('property') == pid]
    known_ids = {k['id'] for k in known}
    kf_counts = {}
    violations = []
    for (kf, sig), (n, fl) in sorted(agg.failures.items()):
        if kf:
            if kf not in known_ids:
                sys.stdout.write('HARNESS-ERROR property=%s failure attributed to unlisted finding %s\n' % (pid, kf))
                return 2
            kf_counts[kf] = kf_counts.get(kf, 0) + n
        else:
            violations.append((sig, n, fl))
    os.makedirs(os.path.join(VERIF, 'replays'), exist_ok=True)
    vio_lines = []
    violations.sort(key=lambda v: case_size(v[2][0]['case']))
    harness_bad = None
    for sig, n, fl in violations[:10]:
        f = fl[0]
        rec = dict(property=pid, tier=tier, seed=seed, repo=repo_head(), count_with_this_signature=n, **f)
        h = hashlib.sha1(json.dumps(f['case'], sort_keys=True, default=str).encode()).hexdigest()[:12]
        path = os.path.join(VERIF, 'replays', '%s-%s.json' % (pid, h))
        with open(path, 'w') as fh:
            json.dump(rec, fh, indent=1, ensure_ascii=True, default=str)
        if recheck:
            outs = []
            for _ in range(2):
                p = subprocess.run([sys.executable, os.path.join(VERIF, 'check'), pid, '--replay', path],
                                   capture_output=True, text=True, cwd=VERIF,
                                   env=dict(os.environ, PYTHONHASHSEED='0'))
                outs.append((p.returncode, p.stdout))
            if outs[0] != outs[1] or outs[0][0] != 1:
                harness_bad = (path, outs)
                break
        vio_lines.append((path, sig, n, f))
    if harness_bad:
        sys.stdout.write('HARNESS-ERROR property=%s candidate violation does not replay deterministically from pristine state: %s\n%r\n'
                         % (pid, harness_bad[0], harness_bad[1]))
        return 2

    wall = time.time() - t0
    exhaustive = agg.capped is None
    kf_fired = []
    for k in known:
        n = kf_counts.get(k['id'], 0)
        if n:
            kf_fired.append(dict(id=k['id'], cases=n, what=k['what']))
    cov = dict(
        states=agg.states, transitions=agg.transitions, traces_validated_against_impl=agg.validated,
        samples=agg.samples[:12], exhaustive=exhaustive,
        evaluations=agg.transitions, distinct_nontrivial=len([o for o, n in agg.outcomes.items() if n]),
        rule='distinct_nontrivial = number of distinct observed outcome classes (vacuity guard); states = distinct inputs/trees/global states; transitions = executions of the real code',
        distinct_outcomes=len(agg.outcomes),
        outcome_histogram=dict(sorted(agg.outcomes.items(), key=lambda kv: -kv[1])[:40]),
        skipped_by_side_condition=agg.skipped, shards=njobs, workers=nproc,
        known_findings_fired=kf_fired, repo=repo_head(), repo_path=REPO,
    )
    if agg.capped:
        cov['cap_hit'] = agg.capped
    if hasattr(mod, 'describe'):
        cov['bounds'] = mod.describe(tier)
    for k, v in agg.extra.items():
        cov.setdefault('extra', {})[k] = v if not isinstance(v, list) else v[:20]
    ev = dict(property_id=pid, tier=tier, seed=seed, level='model_checking', coverage=cov,
              assumptions=getattr(mod, 'ASSUMPTIONS', []), wall_s=round(wall, 2), violations=len(violations),
              technique=getattr(mod, 'TECHNIQUE', ''))
    if write_evidence:
        os.makedirs(os.path.join(VERIF, 'evidence'), exist_ok=True)
        with open(os.path.join(VERIF, 'evidence', pid + '.json'), 'w') as fh:
            json.dump(ev, fh, indent=1, ensure_ascii=True, default=str)
    for k in kf_fired:
        print('KNOWN-FINDING: property=%s %s: %s (%d cases)' % (pid, k['id'], k['what'], k['cases']))
    print('%s tier=%s states=%d transitions=%d validated=%d outcomes=%d shards=%d exhaustive=%s wall=%.1fs'
          % (pid, tier, agg.states, agg.transitions, agg.validated, len(agg.outcomes), njobs, exhaustive, wall))
    if vio_lines:
        for path, sig, n, f in vio_lines:
            print('  violation sig=%s cases=%d smallest=%s' % (sig, n, json.dumps(f['case'], ensure_ascii=True, default=str)[:300]))
            print('VIOLATION property=%s replay=%s' % (pid, path))
        return 1
    return 0


def run_pool(mod, tier, seed, errors):
    jobs = list(mod.jobs(tier))
    njobs = len(jobs)
    if njobs and seed:
        k = seed % njobs
        jobs = jobs[k:] + jobs[:k]       # the seed only rotates the visiting order of shards
    agg = Result()
    done = 0
    nproc = min(NPROC, max(1, njobs))
    modname = mod.__name__
    ctx = mp.get_context('fork')
    with ctx.Pool(nproc, initializer=_worker_init) as pool:
        for status, job, payload in pool.imap_unordered(_run, [(modname, j) for j in jobs], chunksize=1):
            done += 1
            if status == 'err':
                errors.append((job, payload))
                continue
            agg.states += payload['states']
            agg.transitions += payload['transitions']
            agg.validated += payload['validated']
            for k, (n, fl) in payload['failures'].items():
                ent = agg.failures.setdefault(k, [0, []])
                ent[0] += n
                ent[1].extend(fl)
                ent[1].sort(key=lambda f: (case_size(f['case']), json.dumps(f['case'], sort_keys=True, default=str)))
                del ent[1][MAX_KEEP:]
            for k, n in payload['outcomes'].items():
                agg.outcomes[k] = agg.outcomes.get(k, 0) + n
            for k, n in payload['skipped'].items():
                agg.skipped[k] = agg.skipped.get(k, 0) + n
            if payload['capped']:
                agg.capped = payload['capped']
            for k, v in payload['extra'].items():
                if isinstance(v, (int, float)):
                    agg.extra[k] = agg.extra.get(k, 0) + v
                elif isinstance(v, list):
                    agg.extra.setdefault(k, []).extend(v)
                elif isinstance(v, dict):
                    d = agg.extra.setdefault(k, {})
                    for kk, vv in v.items():
                        d[kk] = d.get(kk, 0) + vv if isinstance(vv, (int, float)) else vv
                else:
                    agg.extra[k] = v
            if len(agg.samples) < 12:
                agg.samples.extend(payload['samples'][:2])
    return agg, njobs, nproc


def merge_payload(agg, payload):
    agg.states += payload['states']
    agg.transitions += payload['transitions']
    agg.validated += payload['validated']
    for k, (n, fl) in payload['failures'].items():
        ent = agg.failures.setdefault(k, [0, []])
        ent[0] += n
        ent[1].extend(fl)
        ent[1].sort(key=lambda f: (case_size(f['case']), json.dumps(f['case'], sort_keys=True, default=str)))
        del ent[1][MAX_KEEP:]
    for k, n in payload['outcomes'].items():
        agg.outcomes[k] = agg.outcomes.get(k, 0) + n
    for k, n in payload['skipped'].items():
        agg.skipped[k] = agg.skipped.get(k, 0) + n


# ---------------------------------------------------------------------------------------------
# word enumeration helpers (E1)

def word_jobs(name, alphabet, k, split=2):
    """Cut {w in alphabet*, |w|<=k} into shards: one for all words shorter than `split`, one per
    prefix of length `split`. Returns job tuples (name, prefix_indices or None, k)."""
    n = len(alphabet)
    if k < split:
        return [(name, None, k)]
    jobs = [(name, None, split - 1)]
    import itertools
    for pre in itertools.product(range(n), repeat=split):
        jobs.append((name, pre, k))
    return jobs


def words_of_job(alphabet, prefix, k):
    """Yield token tuples. prefix None: all words of length 0..k; else all words starting with prefix, length <= k."""
    import itertools
    if prefix is None:
        for L in range(0, k + 1):
            for w in itertools.product(alphabet, repeat=L):
                yield w
        return
    pre = tuple(alphabet[i] for i in prefix)
    for L in range(0, k - len(pre) + 1):
        for w in itertools.product(alphabet, repeat=L):
            yield pre + w


def count_words(n, k):
    return sum(n ** i for i in range(k + 1))


def exc_sig(e):
    """exception signature: type + innermost frame inside the repository under test"""
    tb = e.__traceback__
    where = '?'
    while tb is not None:
        fn = tb.tb_frame.f_code.co_filename
        if fn.startswith(REPO):
            where = '%s:%s' % (os.path.basename(fn), tb.tb_frame.f_code.co_name)
        tb = tb.tb_next
    return 'exception:%s@%s' % (type(e).__name__, where)
