"""Pristine-state snapshot / restore / canonical view of every mutable global of mistletoe.

The explorers call restore() before each evaluated input so that an evaluation is a function of
(input, configuration) only; the history explorer (E3) instead uses canon() as its state vector.
The walker is generic: every module whose name starts with 'mistletoe' that is loaded at
snapshot time, every module-level binding that is not a module/function/class, and every entry of
vars(cls) of every class defined in those modules that is not a function/descriptor/dunder.
"""
import sys
import re
import html
import types

_SKIP_TYPES = (types.ModuleType, types.FunctionType, types.BuiltinFunctionType, type,
               classmethod, staticmethod, property, types.MethodType, types.GetSetDescriptorType,
               types.MemberDescriptorType, types.WrapperDescriptorType, types.MethodDescriptorType)

_snap = None


def _modules():
    return [(n, m) for n, m in sorted(sys.modules.items())
            if m is not None and (n == 'mistletoe' or n.startswith('mistletoe.'))]


def _copy(v):
    t = type(v)
    if t is list:
        return list(v)
    if t is dict:
        return dict(v)
    if t is set:
        return set(v)
    if isinstance(v, (list, dict, set)):
        import copy
        return copy.copy(v)        # subclasses (e.g. a ParseBuffer kept at class level) keep their type and attributes
    return v


def _slots():
    """yield (owner, owner_name, attr, value) for every mutable-state slot"""
    for mname, mod in _modules():
        for k, v in list(vars(mod).items()):
            if k.startswith('__'):
                continue
            if isinstance(v, _SKIP_TYPES):
                if isinstance(v, type) and getattr(v, '__module__', None) == mname:
                    for ak, av in list(vars(v).items()):
                        if ak.startswith('__') or isinstance(av, _SKIP_TYPES):
                            continue
                        yield v, mname + '.' + v.__qualname__, ak, av
                continue
            if isinstance(v, types.GeneratorType):
                continue
            yield mod, mname, k, v


def snapshot():
    """Record the state of a freshly imported library. Call once, right after importing it."""
    global _snap
    load_all()
    slots = {}
    owners = {}
    for owner, oname, attr, val in _slots():
        slots[(oname, attr)] = _copy(val)
        owners[oname] = owner
    _snap = dict(slots=slots, owners=owners, charref=html._charref)
    return len(slots)


def load_all():
    import mistletoe  # noqa
    for name in ('mistletoe.ast_renderer', 'mistletoe.latex_renderer', 'mistletoe.markdown_renderer',
                 'mistletoe.contrib.toc_renderer', 'mistletoe.contrib.github_wiki',
                 'mistletoe.contrib.mathjax', 'mistletoe.contrib.pygments_renderer',
                 'mistletoe.contrib.jira_renderer', 'mistletoe.contrib.xwiki20_renderer',
                 'mistletoe.cli', 'mistletoe.utils', 'mistletoe.latex_token', 'mistletoe.contrib.scheme'):
        __import__(name)


def restore():
    """Put every slot back to its snapshot value; delete slots that did not exist at snapshot.
    Fast path: per owner compare the namespace size, per slot compare identity/equality."""
    s = _snap
    fast = s.get('fast')
    if fast is None:
        fast = s['fast'] = _build_fast()
    for owner, oname, n, items in fast:
        d = vars(owner)
        if len(d) != n:
            _slow_fix_owner(owner, oname)
        for attr, want, mutable in items:
            val = d.get(attr, _MISSING)
            if val is want:
                continue
            if mutable:
                if type(val) is type(want) and val == want and getattr(val, '__dict__', None) == getattr(want, '__dict__', None):
                    continue
                setattr(owner, attr, _copy(want))
            else:
                setattr(owner, attr, want)
    html._charref = s['charref']


_MISSING = object()


def _build_fast():
    s = _snap
    per = {}
    for (oname, attr), want in s['slots'].items():
        per.setdefault(oname, []).append((attr, want, isinstance(want, (list, dict, set))))
    return [(s['owners'][oname], oname, len(vars(s['owners'][oname])), items) for oname, items in per.items()] + \
           [(o, on, len(vars(o)), []) for on, o in _all_owners().items() if on not in per]


def _all_owners():
    res = {}
    for mname, mod in _modules():
        res[mname] = mod
        for k, v in list(vars(mod).items()):
            if isinstance(v, type) and getattr(v, '__module__', None) == mname:
                res[mname + '.' + v.__qualname__] = v
    return res


def _slow_fix_owner(owner, oname):
    """an attribute was added to (or removed from) this module/class since the snapshot"""
    s = _snap
    slots = s['slots']
    for k, v in list(vars(owner).items()):
        if k.startswith('__') or isinstance(v, _SKIP_TYPES) or isinstance(v, types.GeneratorType):
            continue
        if (oname, k) not in slots:
            delattr(owner, k)
    # entries that disappeared are put back by the caller's per-slot loop (val is _MISSING)


def _canon_val(v, depth=0):
    if isinstance(v, type):
        return 'cls:' + v.__module__ + '.' + v.__qualname__
    if isinstance(v, (str, int, float, bool, type(None))):
        return v
    if isinstance(v, re.Pattern):
        return 're:' + v.pattern
    if isinstance(v, re.Match):
        return ['match', v.group(0), v.start(), v.end()]
    if isinstance(v, (list, tuple)):
        extra = getattr(v, '__dict__', None)
        res = [_canon_val(x, depth + 1) for x in v]
        if extra:
            res.append(['attrs'] + sorted((k, repr(_canon_val(x, depth + 1))) for k, x in extra.items()))
        return res
    if isinstance(v, (set, frozenset)):
        if len(v) > 64:
            return 'set#%d' % len(v)
        return sorted(repr(_canon_val(x, depth + 1)) for x in v)
    if isinstance(v, dict):
        if len(v) > 64:
            return 'dict#%d' % len(v)
        return sorted((repr(k), repr(_canon_val(x, depth + 1))) for k, x in v.items())
    if isinstance(v, _SKIP_TYPES):
        return 'callable:' + getattr(v, '__qualname__', type(v).__name__)
    # generic object (e.g. a MatchObj left in a scratch list, a renderer instance, a Document)
    d = getattr(v, '__dict__', None)
    if d is not None and depth < 3:
        return [type(v).__name__] + sorted((k, repr(_canon_val(x, depth + 1))) for k, x in d.items()
                                           if not k.startswith('_parent'))
    return 'obj:' + type(v).__name__


def canon():
    """Canonical, hashable-by-repr view of the whole global state (E3's state vector)."""
    out = []
    for owner, oname, attr, val in _slots():
        out.append((oname + '.' + attr, _canon_val(val)))
    out.append(('html._charref', html._charref.pattern))
    return out


def diff_from_pristine():
    """[(slot, pristine, now)] for every slot whose canonical value differs from the snapshot."""
    s = _snap
    res = []
    seen = set()
    for owner, oname, attr, val in _slots():
        key = (oname, attr)
        seen.add(key)
        now = _canon_val(val)
        if key not in s['slots']:
            res.append((oname + '.' + attr, '<absent>', now))
            continue
        was = _canon_val(s['slots'][key])
        if was != now:
            res.append((oname + '.' + attr, was, now))
    for key in s['slots']:
        if key not in seen:
            res.append((key[0] + '.' + key[1], _canon_val(s['slots'][key]), '<absent>'))
    if html._charref is not s['charref']:
        res.append(('html._charref', s['charref'].pattern, html._charref.pattern))
    return res


def slot_names():
    return sorted(k[0] + '.' + k[1] for k in _snap['slots'])


def capture():
    """Copy of the current value of every slot (for E3: take several observations from one state)."""
    cap = {}
    owners = {}
    for owner, oname, attr, val in _slots():
        cap[(oname, attr)] = _copy(val)
        owners[oname] = owner
    return dict(slots=cap, owners=owners, charref=html._charref)


def reinstate(cap):
    """Put the library back into a captured state."""
    slots = cap['slots']
    seen = set()
    for owner, oname, attr, val in _slots():
        key = (oname, attr)
        seen.add(key)
        if key not in slots:
            delattr(owner, attr)
            continue
        want = slots[key]
        if val is want:
            continue
        setattr(owner, attr, _copy(want))
    for key, want in slots.items():
        if key not in seen:
            setattr(cap['owners'][key[0]], key[1], _copy(want))
    html._charref = cap['charref']
