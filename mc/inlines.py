"""E2, inline part: bounded-exhaustive inline sequences -> Markdown + HTML written from the structure.

A node is (md, html, plain, flags). Leaves are listed with the HTML the spec fixes for them; containers wrap a
sequence. Side conditions of the writer (stated in the evidence): sequence elements are separated by one space so
that adjacent delimiter runs cannot re-associate; a container may only wrap content that neither starts nor ends with
its own delimiter character; links do not contain links; line breaks do not occur in headings, table cells or
image descriptions; every line starts with a plain word."""
import itertools

REFDEFS = '\n\n[r]: /d "D"\n'


class I:
    __slots__ = ('md', 'html', 'plain', 'link', 'brk', 'name')

    def __init__(self, name, md, html, plain, link=False, brk=False):
        self.name, self.md, self.html, self.plain, self.link, self.brk = name, md, html, plain, link, brk


LEAVES = [
    ('word', 'v', 'v', 'v'),
    ('em*', '*e*', '<em>e</em>', 'e'),
    ('em_', '_e_', '<em>e</em>', 'e'),
    ('strong*', '**s**', '<strong>s</strong>', 's'),
    ('strong_', '__s__', '<strong>s</strong>', 's'),
    ('del', '~~d~~', '<del>d</del>', 'd'),
    ('code', '`c`', '<code>c</code>', 'c'),
    ('code2', '`` `c` ``', '<code>`c`</code>', '`c`'),
    ('codepad', '`  c `', '<code> c</code>', ' c'),
    ('link', '[t](/u)', '<a href="/u">t</a>', 't'),
    ('link<>', '[t](</u v>)', '<a href="/u%20v">t</a>', 't'),
    ('link"', '[t](/u "T")', '<a href="/u" title="T">t</a>', 't'),
    ("link'", "[t](/u 'T')", '<a href="/u" title="T">t</a>', 't'),
    ('link()', '[t](/u (T))', '<a href="/u" title="T">t</a>', 't'),
    ('ref-full', '[t][r]', '<a href="/d" title="D">t</a>', 't'),
    ('ref-collapsed', '[r][]', '<a href="/d" title="D">r</a>', 'r'),
    ('ref-shortcut', '[r]', '<a href="/d" title="D">r</a>', 'r'),
    ('ref-undefined', '[n]', '[n]', '[n]'),
    ('image', '![a](/i)', '<img src="/i" alt="a" />', 'a'),
    ('image-ref', '![a][r]', '<img src="/d" alt="a" title="D" />', 'a'),
    ('autolink', '<http://x.y/z>', '<a href="http://x.y/z">http://x.y/z</a>', 'http://x.y/z'),
    ('automail', '<a@b.c>', '<a href="mailto:a@b.c">a@b.c</a>', 'a@b.c'),
    ('hardbreak-spaces', 'p  \nq', 'p<br />\nq', None),
    ('hardbreak-backslash', 'p\\\nq', 'p<br />\nq', None),
    ('softbreak', 'p\nq', 'p\nq', None),
    ('escape', '\\*', '*', '*'),
    ('entity-named', '&amp;', '&amp;', '&'),
    ('entity-dec', '&#35;', '#', '#'),
    ('entity-hex', '&#x22;', '&quot;', '"'),
    ('rawhtml', '<b class="k">', '<b class="k">', None),
    ('link-title-braces', '[t](/u "{inner} {0} %s")', '<a href="/u" title="{inner} {0} %s">t</a>', 't'),
    ('link-title-3-lines', '[t](/u "a\nb\nc")', '<a href="/u" title="a\nb\nc">t</a>', None),
    ('rawhtml-3-lines', 'p <!-- a\nb\nc --> q', 'p <!-- a\nb\nc --> q', None),
    # a pipe outside a table is plain text (a line with a pipe is only a table header if a delimiter row with the same
    # number of cells follows; the contexts below never supply one)
    ('pipe', 'a | b', 'a | b', 'a | b'),
    ('code-pipe', '`a|b`', '<code>a|b</code>', 'a|b'),
]
LINKISH = {'link-title-braces', 'link-title-3-lines', 'link', 'link<>', 'link"', "link'", 'link()', 'ref-full', 'ref-collapsed', 'ref-shortcut', 'autolink', 'automail'}
BREAKS = {'hardbreak-spaces', 'hardbreak-backslash', 'softbreak', 'link-title-3-lines', 'rawhtml-3-lines'}


def esc_attr(s):
    return s.replace('&', '&amp;').replace('<', '&lt;').replace('>', '&gt;').replace('"', '&quot;')


def leaf(i):
    name, md, html, plain = LEAVES[i]
    return I(name, md, html, plain, link=name in LINKISH, brk=name in BREAKS)


CONTAINERS = [
    ('em*', '*', '*', '<em>', '</em>'),
    ('em_', '_', '_', '<em>', '</em>'),
    ('strong*', '**', '**', '<strong>', '</strong>'),
    ('strong_', '__', '__', '<strong>', '</strong>'),
    ('del', '~~', '~~', '<del>', '</del>'),
    ('link', '[', '](/u)', '<a href="/u">', '</a>'),
    ('reflink', '[', '][r]', '<a href="/d" title="D">', '</a>'),
    ('image', '![', '](/i)', None, None),
]


def seq(nodes):
    """space-separated sequence"""
    plain = None if any(n.plain is None for n in nodes) else ' '.join(n.plain for n in nodes)
    return I('seq', ' '.join(n.md for n in nodes), ' '.join(n.html for n in nodes), plain,
             link=any(n.link for n in nodes), brk=any(n.brk for n in nodes))


def wrap(ci, inner):
    """container around an I; returns None if a side condition of the writer forbids it"""
    name, op, cl, hop, hcl = CONTAINERS[ci]
    if name in ('em*', 'strong*') and (inner.md[0] == '*' or inner.md[-1] == '*'):
        return None
    if name in ('em_', 'strong_') and (inner.md[0] == '_' or inner.md[-1] == '_'):
        return None
    if name == 'del' and '~~' in inner.md:
        return None        # strikethrough inside strikethrough: GFM leaves the nesting of equal tilde runs open
    if name in ('link', 'reflink') and inner.link:
        return None
    if name == 'image':
        if inner.plain is None or inner.brk:
            return None
        return I('image', op + inner.md + cl, '<img src="/i" alt="%s" />' % esc_attr(inner.plain), inner.plain, link=inner.link)
    if inner.md[0] == ' ' or inner.md[-1] == ' ':
        return None
    return I(name, op + inner.md + cl, hop + inner.html + hcl, inner.plain, link=inner.link or name in ('link', 'reflink'), brk=inner.brk)


# ---- block contexts: (name, markdown template, html template, allows line breaks)
CONTEXT_NAMES = ['paragraph', 'atx heading', 'table cell', 'tight list item', 'block quote', 'table header cell', 'setext heading',
                 'setext heading level 2']


def in_context(ci, node):
    """-> (markdown, expected html) or None"""
    md, html = node.md, node.html
    if ci == 0:
        return 'w ' + md + ' z' + REFDEFS, '<p>w ' + html + ' z</p>\n'
    if ci == 1:
        if node.brk:
            return None
        return '# w ' + md + REFDEFS, '<h1>w ' + html + '</h1>\n'
    if ci == 2:
        if node.brk or '|' in md:
            return None
        return ('| h | k |\n| --- | --- |\n| w ' + md + ' | y |' + REFDEFS,
                '<table>\n<thead>\n<tr>\n<th align="left">h</th>\n<th align="left">k</th>\n</tr>\n</thead>\n<tbody>\n<tr>\n'
                '<td align="left">w ' + html + '</td>\n<td align="left">y</td>\n</tr>\n</tbody>\n</table>\n')
    if ci == 3:
        return '- w ' + md.replace('\n', '\n  ') + '\n- x' + REFDEFS, '<ul>\n<li>w ' + html + '</li>\n<li>x</li>\n</ul>\n'
    if ci == 4:
        return '> w ' + md.replace('\n', '\n> ') + REFDEFS, '<blockquote>\n<p>w ' + html + '</p>\n</blockquote>\n'
    if ci == 5:
        if node.brk or '|' in md:
            return None
        return ('| w ' + md + ' | k |\n| --- | --- |\n| x | y |' + REFDEFS,
                '<table>\n<thead>\n<tr>\n<th align="left">w ' + html + '</th>\n<th align="left">k</th>\n</tr>\n</thead>\n<tbody>\n<tr>\n'
                '<td align="left">x</td>\n<td align="left">y</td>\n</tr>\n</tbody>\n</table>\n')
    if ci == 6:
        if node.brk and ('  \n' in md or '\\\n' in md):
            pass
        return 'w ' + md + '\n===' + REFDEFS, '<h1>w ' + html + '</h1>\n'
    if ci == 7:
        return 'w ' + md + '\n---' + REFDEFS, '<h2>w ' + html + '</h2>\n'
    raise KeyError(ci)


# ---- enumeration
def depth1_nodes(max_inner):
    """container around 1..max_inner leaves"""
    nl = len(LEAVES)
    for ci in range(len(CONTAINERS)):
        for k in range(1, max_inner + 1):
            for ls in itertools.product(range(nl), repeat=k):
                n = wrap(ci, seq([leaf(i) for i in ls]))
                if n is not None:
                    yield n, ('c%d' % ci,) + ls


def depth2_nodes(max_inner):
    nl = len(LEAVES)
    for c1 in range(len(CONTAINERS)):
        for c2 in range(len(CONTAINERS)):
            for k in range(1, max_inner + 1):
                for ls in itertools.product(range(nl), repeat=k):
                    inner = wrap(c2, seq([leaf(i) for i in ls]))
                    if inner is None:
                        continue
                    n = wrap(c1, inner)
                    if n is not None:
                        yield n, ('c%d' % c1, 'c%d' % c2) + ls
                    # container around [inner-container, leaf]
                    for extra in (0, 6, 9):
                        n2 = wrap(c1, seq([inner, leaf(extra)]))
                        if n2 is not None:
                            yield n2, ('c%d' % c1, 'c%d' % c2) + ls + ('+%d' % extra,)


def families(bounds):
    """names of the enumerated families for this tier"""
    fams = ['leaf-seq-%d' % k for k in range(1, bounds['seq'] + 2)]
    fams += ['depth1-single', 'depth1+leaf']
    if bounds['nest'] >= 2:
        fams += ['depth1-pair', 'depth2']
    return fams


def jobs(bounds):
    js = []
    nl = len(LEAVES)
    for fam in families(bounds):
        for first in range(nl if not fam.startswith('depth1-single') and fam != 'depth2' else len(CONTAINERS)):
            js.append(('inline', fam, first))
    return js


def enumerate_family(fam, first):
    nl = len(LEAVES)
    if fam.startswith('leaf-seq-'):
        k = int(fam.rsplit('-', 1)[1])
        for rest in itertools.product(range(nl), repeat=k - 1):
            ls = (first,) + rest
            yield seq([leaf(i) for i in ls]), ls
    elif fam == 'depth1-single':
        for n, key in depth1_nodes(2):
            if key[0] == 'c%d' % first:
                yield n, key
    elif fam == 'depth1+leaf':
        lf = leaf(first)
        for n, key in depth1_nodes(1):
            yield seq([lf, n]), (first,) + key
            yield seq([n, lf]), key + (first,)
    elif fam == 'depth1-pair':
        firsts = [(n, key) for n, key in depth1_nodes(1) if key[1] == first]
        for a, ka in firsts:
            for b, kb in depth1_nodes(1):
                yield seq([a, b]), ka + kb
    elif fam == 'depth2':
        for n, key in depth2_nodes(2):
            if key[0] == 'c%d' % first:
                yield n, key
    else:
        raise KeyError(fam)


def run_job(r, job, render, normalize):
    from mc import core
    _, fam, first = job
    for node, key in enumerate_family(fam, first):
        r.states += 1
        for ci in range(len(CONTEXT_NAMES)):
            ctx = in_context(ci, node)
            if ctx is None:
                r.skip('inline sequence not allowed in this block context (line break in heading/cell)')
                continue
            md, want = ctx
            r.transitions += 1
            try:
                got = render(md)
            except core.EvalTimeout:
                r.fail(dict(markdown=md, expected_html=want), 'timeout')
                continue
            except Exception as e:
                r.fail(dict(markdown=md, expected_html=want), core.exc_sig(e), repr(e)[:200])
                continue
            r.validated += 1
            if normalize(got) != normalize(want):
                r.fail(dict(markdown=md, expected_html=want, family=fam), 'inline-html-differs-from-tree:' + CONTEXT_NAMES[ci],
                       expected=want, observed=got)
        r.outcome(fam)
    r.sample(dict(family=fam, first=first), 1)
