"""E2: bounded-exhaustive document trees -> Markdown text (+ line of every block) + HTML written from the tree.

Korat/SmallCheck style: all forests with exactly n block nodes and nesting depth <= D over a fixed menu of block
kinds, smallest first. The writer only uses constructions whose meaning the CommonMark 0.30 spec fixes (basic cases
of 5.1/5.2, siblings separated by a blank line unless the interruption table allows otherwise) and refuses sibling
sequences the spec would merge or re-interpret (valid()). Spelling options are applied uniformly to a document; a
"deviation" is one option set to a non-default value."""
import itertools


class N:
    def __init__(self, kind, **kw):
        self.kind = kind
        self.__dict__.update(kw)

    def __repr__(self):
        d = {k: v for k, v in self.__dict__.items() if k not in ('kind',) and not k.startswith('_')}
        return '%s(%s)' % (self.kind, ','.join('%s=%r' % kv for kv in d.items()))


# ------------------------------------------------------------------------------------------- menu
LEAVES = [
    ('para1', lambda w: N('para', lines=[w])),
    ('para2', lambda w: N('para', lines=[w, w + 'x'])),
    ('atx', lambda w: N('atx', level=2, text=w)),
    ('setext1', lambda w: N('setext', level=1, lines=[w])),
    ('setext2', lambda w: N('setext', level=2, lines=[w, w + 'y'])),
    ('hr', lambda w: N('hr')),
    ('fence', lambda w: N('fence', ch='`', info='', lines=[w])),
    ('fence~', lambda w: N('fence', ch='~', info='py', lines=[w, '', ' ' + w])),
    ('indented', lambda w: N('indented', lines=[w])),
    ('html', lambda w: N('html', lines=['<div>', w, '</div>'])),
    ('comment', lambda w: N('html', lines=['<!-- ' + w + ' -->'])),
    ('table', lambda w: N('table', aligns=[None, 1], header=[w, 'h'], rows=[['c', 'd']])),
    ('linkdef', lambda w: N('linkdef', label=w, dest='/u', title='t')),
    ('linkdef-2-lines', lambda w: N('linkdef', label=w, dest='/u', title='t2', title_style='nextline')),
]
LEAF_NAMES = [n for n, _ in LEAVES]
CONTAINERS = ['quote', 'ul', 'ol', 'ul2']   # ul2 = bullet list with two items


def forests(n, depth, nleaf=None, conts=None, empty=True):
    """all lists of shapes using exactly n nodes, nesting depth <= depth"""
    if n == 0:
        yield []
        return
    for first_size in range(1, n + 1):
        for first in shapes(first_size, depth, nleaf, conts, empty):
            for rest in forests(n - first_size, depth, nleaf, conts, empty):
                yield [first] + rest


def shapes(n, depth, nleaf=None, conts=None, empty=True):
    nleaf = len(LEAVES) if nleaf is None else nleaf
    conts = CONTAINERS if conts is None else conts
    if n == 1:
        for i in range(nleaf):
            yield ('leaf', i)
        if depth >= 1 and empty:
            for c in conts:
                if c != 'ul2':
                    yield (c, [])          # empty container: quote without content / empty list item
        return
    if depth < 1:
        return
    for c in conts:
        if c == 'ul2':
            if n < 3:
                continue
            for k in range(1, n - 1):
                for a in forests(k, depth - 1, nleaf, conts, empty):
                    for b in forests(n - 1 - k, depth - 1, nleaf, conts, empty):
                        yield (c, [a, b])
        else:
            for ch in forests(n - 1, depth - 1, nleaf, conts, empty):
                yield (c, ch)


def build(shape, ctr, leaves=None):
    kind, arg = shape
    if kind == 'leaf':
        ctr[0] += 1
        return (leaves or LEAVES)[arg][1]('w%d' % ctr[0])
    if kind == 'quote':
        return N('quote', children=[build(s, ctr, leaves) for s in arg])
    if kind == 'ul':
        return N('list', ordered=False, start=None, items=[[build(s, ctr, leaves) for s in arg]])
    if kind == 'ol':
        return N('list', ordered=True, start=3, items=[[build(s, ctr, leaves) for s in arg]])
    if kind == 'ul2':
        return N('list', ordered=False, start=None, two=True, items=[[build(s, ctr, leaves) for s in it] for it in arg])
    raise KeyError(kind)


# ------------------------------------------------------------------------------------------- soundness side conditions
def valid_siblings(blocks, in_item=False):
    for i, (a, b) in enumerate(zip(blocks, blocks[1:])):
        if a.kind == 'list' and b.kind == 'list' and a.ordered == b.ordered:
            return False        # would merge (same type; the writer uses one delimiter per type)
        if a.kind == 'list' and b.kind == 'indented':
            return False        # would be absorbed into the last item
        if a.kind == 'indented' and b.kind == 'indented':
            return False        # would merge into one code block
    if in_item:
        # a link definition inside a list item only as its sole child: whether a definition counts as one of the "two
        # block-level elements with a blank line between them" (looseness) is read differently by the spec text and
        # the reference implementations (cf. spec example 317), so the writer stays away from it
        if len(blocks) > 1 and any(b.kind == 'linkdef' for b in blocks):
            return False
    return True


def valid(blocks, in_item=False):
    if not valid_siblings(blocks, in_item):
        return False
    for b in blocks:
        if b.kind == 'quote' and not valid(b.children):
            return False
        if b.kind == 'list':
            for it in b.items:
                if not valid(it, True):
                    return False
                if it and it[0].kind == 'indented' and len(it) > 1 and it[1].kind not in ('para', 'atx', 'quote', 'fence'):
                    return False            # keep what follows an item-initial code block simple
                if it and it[0].kind == 'hr':
                    return False            # '- ***' is fine but '* ***' is a thematic break; kept out
    return True


def all_docs(n, depth):
    for f in forests(n, depth):
        ctr = [0]
        blocks = [build(s, ctr) for s in f]
        if valid(blocks):
            yield blocks


# ------------------------------------------------------------------------------------------- spelling options
DEFAULTS = dict(qnospace=False, pad=1, lindent=0, qindent=0, lazy=False, bindent=0, item_blank_first=False,
                quote_blank_first=False, blanks=1, lead_blank=0, bullet='-', bullet2='*', odelim='.', fence_len=3,
                fence_close_extra=0, atx_closing='', setext_len=3, hr='***', tight_siblings=False, loose_items=False,
                trailing_newline=True, table_pipes='both', renderer_form=False)
CHOICES = dict(qnospace=[True], pad=[2, 3, 4], lindent=[1, 2, 3], qindent=[1, 2, 3], lazy=[True], bindent=[1, 2, 3],
               item_blank_first=[True], quote_blank_first=[True], blanks=[2], lead_blank=[1, 2], bullet=['+', '*'],
               bullet2=['+', '-'], odelim=[')'], fence_len=[4, 6], fence_close_extra=[2], atx_closing=['#', '###'],
               setext_len=[1, 7], hr=['---', '___', '* * *', '-----', '_  _  _'], tight_siblings=[True], loose_items=[True],
               trailing_newline=[False], table_pipes=['none'])
# options that move lines around (used by C13 with deviation bound 2)
LINE_MOVING = ['lead_blank', 'blanks', 'quote_blank_first', 'item_blank_first', 'lazy', 'tight_siblings', 'loose_items', 'qnospace', 'pad', 'lindent']


def spellings(d, keys=None):
    """all option dicts with at most d non-default choices (the canonical spelling first)"""
    keys = sorted(keys or CHOICES)
    yield dict(DEFAULTS)
    for k in range(1, d + 1):
        for ks in itertools.combinations(keys, k):
            for vals in itertools.product(*[CHOICES[x] for x in ks]):
                o = dict(DEFAULTS)
                o.update(zip(ks, vals))
                yield o


def option_label(o):
    return {k: v for k, v in o.items() if DEFAULTS[k] != v}


# ------------------------------------------------------------------------------------------- writer
class Unwritable(Exception):
    """this tree cannot be written soundly under these options (side condition of the writer)"""


def interrupts_paragraph(b, o):
    """may block b follow a paragraph line directly (no blank line) and still be b? (spec interruption rules)"""
    if b.kind in ('atx', 'fence', 'quote'):
        return True
    if b.kind == 'hr':
        return not o['hr'].startswith('-')      # '---' after a paragraph line is a setext underline
    if b.kind == 'html':
        return b.lines[0] == '<div>'             # kinds 1-6 interrupt, comments (kind 2) do too but keep to kind 6
    if b.kind == 'list':
        # ordered lists only when starting with 1; an item whose marker line is empty cannot interrupt a paragraph
        # (a lone '-' under a paragraph line is a setext underline)
        return bool(b.items[0]) and (not b.ordered) and not (o['item_blank_first'] and b.items[0][0].kind != 'indented')
    return False


def ends_in_open_paragraph(b):
    if b.kind == 'para':
        return True
    if b.kind == 'quote':
        return bool(b.children) and ends_in_open_paragraph(b.children[-1])
    if b.kind == 'list':
        return bool(b.items[-1]) and ends_in_open_paragraph(b.items[-1][-1])
    return False


def needs_blank(a, b, o):
    """must siblings a, b be separated by a blank line to stay a, b? Only the clear cases of the spec are left tight."""
    if a.kind == 'linkdef' and getattr(a, 'glue_next', False):
        return b.kind not in ('para', 'linkdef', 'atx')       # a definition may be followed directly by these
    if not o['tight_siblings']:
        return True
    if a.kind == 'para':
        return not interrupts_paragraph(b, o)
    if a.kind == 'linkdef' and getattr(a, 'glue_next', False):
        return b.kind not in ('para', 'linkdef', 'atx')
    if a.kind in ('atx', 'hr', 'fence'):
        return not (b.kind in ('para', 'atx', 'hr', 'fence', 'setext', 'quote', 'list')
                    or (b.kind == 'html' and b.lines[0] == '<div>'))
    if a.kind == 'linkdef':
        # a definition ends with its line; the next line may start any of these blocks directly
        return not (b.kind in ('para', 'atx', 'fence', 'setext', 'quote', 'list', 'linkdef')
                    or (b.kind == 'html' and b.lines[0] == '<div>'))
    return True


def write_doc(blocks, rec, o, base=0, top=False, in_item=False):
    """returns list of lines (no line ends); rec collects (node, 0-based line index)"""
    out = []
    if top:
        out += [''] * o['lead_blank']
    prev = None
    for i, b in enumerate(blocks):
        if i > 0:
            if needs_blank(prev, b, o):
                out += [''] * o['blanks']
                b._blank_before = True
            else:
                b._blank_before = False
        else:
            b._blank_before = False
        after_list = prev is not None and prev.kind == 'list'
        out += write_block(b, rec, o, base + len(out), no_indent=after_list or (in_item and i == 0))
        prev = b
    return out


def lazy_lines(children, o):
    """indexes (within the canonical inner lines) of paragraph continuation lines of direct child paragraphs"""
    if o['blanks'] != 1 or o['item_blank_first'] or o['quote_blank_first'] or o['tight_siblings']:
        return ()
    idx = []
    pos = 0
    for i, c in enumerate(children):
        if i > 0:
            pos += 1
        n = len(write_block(c, [], o, 0))
        if c.kind == 'para' and len(c.lines) > 1:
            idx += list(range(pos + 1, pos + len(c.lines)))
        pos += n
    return tuple(idx)


def marker_of(b, j, o):
    if not b.ordered:
        return o['bullet2'] if getattr(b, 'two', False) else o['bullet']
    return '%d%s' % (b.start + j, o['odelim'])


def write_block(b, rec, o, base, no_indent=False):
    rec.append((b, base))
    k = b.kind
    bi = '' if no_indent else ' ' * o['bindent']
    if k == 'para':
        return [bi + b.lines[0]] + list(b.lines[1:])
    if k == 'atx':
        return [bi + '#' * b.level + ' ' + b.text + (' ' + o['atx_closing'] if o['atx_closing'] else '')]
    if k == 'setext':
        return [bi + b.lines[0]] + list(b.lines[1:]) + [('=' if b.level == 1 else '-') * o['setext_len']]
    if k == 'hr':
        return [bi + o['hr']]
    if k == 'fence':
        f = b.ch * o['fence_len']
        return [bi + f + b.info] + [(bi + l) if l else l for l in b.lines] + [bi + f + b.ch * o['fence_close_extra']]
    if k == 'indented':
        return ['    ' + l if l else '' for l in b.lines]
    if k == 'html':
        return list(b.lines)
    if k == 'linkdef':
        return linkdef_lines(b)
    if k == 'table':
        d = {None: '---', 0: ':-:', 1: '--:'}
        if o['table_pipes'] == 'padded':
            # the Markdown renderer's own normal form: cells padded to the column width (minimum 3), aligned
            rows = [b.header] + b.rows
            widths = [max([3] + [len(r[c]) for r in rows if c < len(r)]) for c in range(len(b.header))]

            def prow(cells):
                out = []
                for c, w in enumerate(widths):
                    t = cells[c] if c < len(cells) else ''
                    a = b.aligns[c]
                    out.append(t.ljust(w) if a is None else (t.center(w) if a == 0 else t.rjust(w)))
                return '| ' + ' | '.join(out) + ' |'
            seps = [(':' if a == 0 else '-') + '-' * (w - 2) + (':' if a in (0, 1) else '-') for a, w in zip(b.aligns, widths)]
            return [prow(b.header), '| ' + ' | '.join(seps) + ' |'] + [prow(r) for r in b.rows]

        def row(cells):
            return ('| ' + ' | '.join(cells) + ' |') if o['table_pipes'] == 'both' else ' | '.join(cells)
        return [row(b.header), row([d[a] for a in b.aligns])] + [row(r) for r in b.rows]
    if k == 'quote':
        off = 1 if (o['quote_blank_first'] and b.children) else 0
        inner = write_doc(b.children, rec, o, base + off)
        qi = '' if no_indent else ' ' * o['qindent']
        if not inner:
            return [qi + ('> ' if o['renderer_form'] else '>')]
        lz = lazy_lines(b.children, o) if o['lazy'] else ()

        def q(l, i):
            if i in lz:
                return l
            if not l:
                return qi + ('> ' if o['renderer_form'] else '>')
            if o['qnospace'] and not l.startswith(' '):
                return qi + '>' + l
            return qi + '> ' + l
        return [qi + '>'] * off + [q(l, i) for i, l in enumerate(inner)]
    if k == 'list':
        out = []
        b._items = []
        if no_indent and o['lindent']:
            o = dict(o, lindent=0)
        for j, it in enumerate(b.items):
            m = marker_of(b, j, o)
            if j > 0 and o['loose_items']:
                out.append('')
            item = N('item')
            rec.append((item, base + len(out)))
            b._items.append(item)
            code_first = bool(it) and it[0].kind == 'indented'
            bf = bool(o['item_blank_first'] and it) and not code_first
            inner = write_doc(it, rec, o, base + len(out) + (1 if bf else 0), in_item=True)
            if not inner:
                out.append(' ' * o['lindent'] + m + (' ' if o['renderer_form'] else ''))
                continue
            pad = 1 if (bf or code_first) else o['pad']      # spec 5.2 rule 2: exactly one space before an item-initial code block
            width = len(m) + pad + o['lindent']
            m = ' ' * o['lindent'] + m
            lz = lazy_lines(it, o) if o['lazy'] else ()
            if bf:
                out.append(m)
                out += [' ' * width + l if l else '' for l in inner]
            else:
                out.append(m + ' ' * pad + inner[0])
                out += [(l if (i + 1) in lz else ' ' * width + l) if l else '' for i, l in enumerate(inner[1:])]
        return out
    raise KeyError(k)


def linkdef_lines(b):
    """[label]: dest title in the requested quoting styles; label may contain a line break"""
    style = getattr(b, 'title_style', '"')
    dest = '<%s>' % b.dest if getattr(b, 'angle', False) else b.dest
    head = '[%s]: %s' % (b.label, dest)
    if style is None or not b.title:
        text = head
    else:
        t = {'"': '"%s"', "'": "'%s'", '(': '(%s)', 'nextline': '"%s"'}[style] % b.title
        text = head + ('\n  ' if style == 'nextline' else ' ') + t
    return text.split('\n')


_THEMATIC = __import__('re').compile(r'^ {0,3}([-_*])[ \t]*(\1[ \t]*){2,}$')
_PREFIX = __import__('re').compile(r'^(?:> ?| )*')


def to_markdown(blocks, o, strict=False):
    """strict: raise Unwritable if a written line reads as a thematic break although no thematic break was written there
    (nested empty list items such as '- - -': the spec resolves the coincidence in favour of the break)"""
    rec = []
    lines = write_doc(blocks, rec, o, 0, True)
    if strict:
        hr_lines = {ln for n, ln in rec if n.kind == 'hr'} | {ln + len(n.lines) for n, ln in rec if n.kind == 'setext'}
        for i, l in enumerate(lines):
            if i not in hr_lines and l and _THEMATIC.match(_PREFIX.sub('', l)):
                raise Unwritable('line %d reads as a thematic break: %r' % (i + 1, l))
    text = '\n'.join(lines)
    if o['trailing_newline'] or not lines:
        text += '\n'
    return text, rec


# ------------------------------------------------------------------------------------------- expected HTML
def esc(s):
    return s.replace('&', '&amp;').replace('<', '&lt;').replace('>', '&gt;').replace('"', '&quot;')


def html_doc(blocks, tight=False):
    return ''.join(html_block(b, tight) for b in blocks)


def ends_with_empty_item(b):
    """does block b end (at its last line) with an empty list item?"""
    if b.kind != 'list':
        return False
    last = b.items[-1]
    return len(last) == 0 or ends_with_empty_item(last[-1])


def list_is_loose(b, o, swallow=False):
    """computed from the layout the writer produced. swallow=True is the defect model of the recorded finding
    "blank line after an empty nested list item is consumed": such a blank line does not count."""
    if len(b.items) > 1 and o['loose_items']:
        if not swallow or any(not (it and ends_with_empty_item(it[-1])) for it in b.items[:-1]):
            return True
    for it in b.items:
        kids = [c for c in it if c.kind != 'linkdef']
        for a, c in zip(kids, kids[1:]):
            if getattr(c, '_blank_before', True):
                if swallow and ends_with_empty_item(a):
                    continue
                return True
    return False


def html_block(b, tight, o=None):
    k = b.kind
    if k == 'para':
        t = '\n'.join(esc(l) for l in b.lines)
        return t + '\n' if tight else '<p>%s</p>\n' % t
    if k == 'atx':
        return '<h%d>%s</h%d>\n' % (b.level, esc(b.text), b.level)
    if k == 'setext':
        return '<h%d>%s</h%d>\n' % (b.level, '\n'.join(esc(l) for l in b.lines), b.level)
    if k == 'hr':
        return '<hr />\n'
    if k == 'fence':
        cls = ' class="language-%s"' % b.info.split()[0] if b.info.strip() else ''
        return '<pre><code%s>%s</code></pre>\n' % (cls, ''.join(esc(l) + '\n' for l in b.lines))
    if k == 'indented':
        return '<pre><code>%s</code></pre>\n' % ''.join(esc(l) + '\n' for l in b.lines)
    if k == 'html':
        return '\n'.join(b.lines) + '\n'
    if k == 'linkdef':
        return ''
    if k == 'table':
        al = {None: 'left', 0: 'center', 1: 'right'}

        def cells(tag, cs):
            return ''.join('<%s align="%s">%s</%s>\n' % (tag, al[a], esc(c), tag) for c, a in zip(cs, b.aligns))
        return '<table>\n<thead>\n<tr>\n%s</tr>\n</thead>\n<tbody>\n%s</tbody>\n</table>\n' % (
            cells('th', b.header), ''.join('<tr>\n%s</tr>\n' % cells('td', r) for r in b.rows))
    if k == 'quote':
        return '<blockquote>\n%s</blockquote>\n' % html_doc(b.children)
    if k == 'list':
        loose = b._loose
        tag = 'ol' if b.ordered else 'ul'
        attr = ' start="%d"' % b.start if b.ordered and b.start != 1 else ''
        items = []
        for it in b.items:
            kids = [c for c in it if c.kind != 'linkdef']
            if not kids:
                items.append('<li></li>\n')
                continue
            inner = html_doc(kids, tight=not loose)
            head = '<li>' if (not loose and kids[0].kind == 'para') else '<li>\n'
            if not loose and kids[-1].kind == 'para':
                inner = inner[:-1]
            items.append(head + inner + '</li>\n')
        return '<%s%s>\n%s</%s>\n' % (tag, attr, ''.join(items), tag)
    raise KeyError(k)


def mark_looseness(blocks, o, swallow=False):
    for b in blocks:
        if b.kind == 'quote':
            mark_looseness(b.children, o, swallow)
        elif b.kind == 'list':
            b._loose = list_is_loose(b, o, swallow)
            for it in b.items:
                mark_looseness(it, o, swallow)


def expected_html(blocks, o):
    """call after to_markdown (which records where blank lines were written)"""
    mark_looseness(blocks, o)
    return html_doc(blocks)


def rewrite_setext_in_quotes(blocks, o, inside=False, state=None):
    """defect model of the recorded finding "setext heading inside a block quote is not recognised": the reader of a quote
    switches setext recognition off while it tokenizes the quote's content, and the reader of every quote switches it back on
    when it is done. So below a quote a setext heading that comes before the first nested quote of that content (in document
    order, list items included) reads as a paragraph whose last line is the underline - a '-' underline of three or more
    characters is a thematic break after that paragraph - while one that comes after a nested quote is recognised."""
    if state is None:
        state = {'on': not inside}
    out = []
    for b in blocks:
        if b.kind == 'setext' and not state['on']:
            if b.level == 1:
                nb = N('para', lines=list(b.lines) + ['=' * o['setext_len']])
                nb._blank_before = getattr(b, '_blank_before', False)
                out.append(nb)
            elif o['setext_len'] >= 3:
                nb = N('para', lines=list(b.lines))
                nb._blank_before = getattr(b, '_blank_before', False)
                out.append(nb)
                x = N('hr')
                x._blank_before = False
                out.append(x)
            else:
                # '-' or '--': neither a thematic break nor (being empty) a list item that may interrupt a paragraph
                nb = N('para', lines=list(b.lines) + ['-' * o['setext_len']])
                nb._blank_before = getattr(b, '_blank_before', False)
                out.append(nb)
        elif b.kind == 'quote':
            nb = N('quote', children=rewrite_setext_in_quotes(b.children, o, True, {'on': False}))
            nb._blank_before = getattr(b, '_blank_before', False)
            out.append(nb)
            state['on'] = True          # the nested quote's reader leaves recognition switched on
        elif b.kind == 'list':
            nb = N('list', ordered=b.ordered, start=b.start, items=[rewrite_setext_in_quotes(it, o, inside, state) for it in b.items])
            if getattr(b, 'two', False):
                nb.two = True
            nb._blank_before = getattr(b, '_blank_before', False)
            out.append(nb)
        else:
            out.append(b)
    return out


def expected_html_under_defects(blocks, o, setext_in_quote=False, swallow_blank=False):
    """HTML the tree would have if exactly the named recorded defects were present (call after to_markdown)"""
    bl = rewrite_setext_in_quotes(blocks, o) if setext_in_quote else blocks
    mark_looseness(bl, o, swallow_blank)
    h = html_doc(bl)
    mark_looseness(blocks, o)
    return h


# ------------------------------------------------------------------------------------------- predicates on trees
def walk(blocks, path=()):
    for b in blocks:
        yield b, path
        if b.kind == 'quote':
            yield from walk(b.children, path + ('quote',))
        elif b.kind == 'list':
            for j, it in enumerate(b.items):
                yield from walk(it, path + ('item%d' % j,))


def has_setext_in_quote(blocks):
    return any(b.kind == 'setext' and 'quote' in p for b, p in walk(blocks))


KINDMAP = {'para': 'Paragraph', 'atx': 'Heading', 'setext': 'SetextHeading', 'hr': 'ThematicBreak', 'fence': 'CodeFence',
           'indented': 'BlockCode', 'html': 'HtmlBlock', 'table': 'Table', 'quote': 'Quote', 'list': 'List', 'item': 'ListItem'}
