"""E2, leaf part: every allowed *spelling* of one leaf block, written out exhaustively over small option grids, each
with the HTML the CommonMark 0.30 / GFM text fixes for it, placed in five block contexts (alone, before a paragraph,
after a paragraph, in a block quote, as second block of a list item). The tree generator (mc/trees.py) varies spellings
uniformly per document with a deviation bound; this module is the complement: one leaf, *all* combinations of its own
spelling options. Everything is a deterministic product of finite lists.

A case is (family, markdown lines of the leaf, expected html of the leaf, label dict). Side conditions (stated in the
evidence): no whitespace-only content lines inside containers (recorded finding KF-C04-whitespace-only-line-in-list-item),
setext headings are not placed inside a block quote (recorded finding KF-C03-setext-in-quote), tab spellings only at top
level, table rows never have more cells than the header (a tree cannot produce them)."""
import itertools


def esc(s):
    return s.replace('&', '&amp;').replace('<', '&lt;').replace('>', '&gt;').replace('"', '&quot;')


# ------------------------------------------------------------------------------------------- fenced code (4.5)
def fences():
    for ch, olen, indent, trail in itertools.product('`~', (3, 4), (0, 2), ('', '  ')):
        infos = [('', ''), ('', 'py'), (' ', 'py'), (' ', 'py x'), ('  ', 'a-b')]
        if ch == '~':
            infos += [(' ', '~x'), (' ', 'a~~~'), ('', 'a`b'), (' ', '```')]
        other = '~~~' if ch == '`' else '```'
        contents = [[], ['w'], ['w', '', 'x'], [other], [ch * olen + ' z'], ['  w', ' x'], [other + 'py', 'w', other]]
        if olen > 3:
            contents += [[ch * (olen - 1)], [ch * 3 + 'sh', 'ls', ch * 3]]
        for (pad, info), content in itertools.product(infos, contents):
            for close in ('same', 'longer', 'indent3', 'trail', 'unclosed'):
                sp = ' ' * indent
                lines = [sp + ch * olen + pad + info + trail]
                lines += [(sp + l) if l else '' for l in content]
                if close == 'same':
                    lines.append(sp + ch * olen)
                elif close == 'longer':
                    lines.append(sp + ch * (olen + 2))
                elif close == 'indent3':
                    lines.append('   ' + ch * olen)
                elif close == 'trail':
                    lines.append(sp + ch * olen + '  \t')
                lang = info.split()[0] if info.strip() else ''
                cls = ' class="language-%s"' % esc(lang) if lang else ''
                html = '<pre><code%s>%s</code></pre>\n' % (cls, ''.join(esc(l) + '\n' for l in content))
                yield ('fence', lines, html, dict(ch=ch, olen=olen, indent=indent, info=pad + info + trail, close=close, content=content),
                       close == 'unclosed')


# ------------------------------------------------------------------------------------------- ATX headings (4.2)
def atx():
    for level, indent, sep in itertools.product(range(1, 7), (0, 3), (' ', '   ', '\t')):
        for content, want in (('w', 'w'), ('w x', 'w x'), ('w#', 'w#'), ('w \\#', 'w #'), ('', ''), ('#w', '#w'), ('w \\###', 'w ###'), ('#', '#'), ('##', '##')):
            for closing in ('', ' #', ' #####', ' #  ', '\t##', ' ####### '):
                if want in ('#', '##') and closing == '':
                    continue        # '# #': the text itself reads as the closing sequence (empty heading; covered by content '')
                if content == '' and closing == '' and sep != ' ':
                    continue            # '#' + tab / spaces only: trailing white space, same as the bare marker
                line = ' ' * indent + '#' * level + (sep if (content or closing) else '') + content + closing
                if not content and closing:
                    # '#  ##': the closing sequence needs no content before it
                    line = ' ' * indent + '#' * level + closing
                yield ('atx', [line], '<h%d>%s</h%d>\n' % (level, esc(want), level), dict(level=level, indent=indent, sep=sep, content=content, closing=closing), False)
    # not headings
    for line in ('#5 w', '#hashtag', '####### w', '\\## w'):
        yield ('atx-not', [line], '<p>%s</p>\n' % esc(line.lstrip('\\')), dict(line=line), False)


# ------------------------------------------------------------------------------------------- setext headings (4.3)
def setext():
    for level, ulen, uindent, utrail in itertools.product((1, 2), (1, 2, 5), (0, 3), ('', '  ', '\t')):
        for lines, want in ((['w'], 'w'), (['w', 'x'], 'w\nx'), (['  w', '   x'], 'w\nx'), (['w  z'], 'w  z'), (['w\\'], 'w\\'), (['w', '    x'], 'w\nx')):
            u = ' ' * uindent + ('=' if level == 1 else '-') * ulen + utrail
            yield ('setext', list(lines) + [u], '<h%d>%s</h%d>\n' % (level, esc(want), level), dict(level=level, ulen=ulen, uindent=uindent, utrail=utrail, lines=lines), False)


# ------------------------------------------------------------------------------------------- indented code (4.4)
def indented():
    cases = [(['    w'], 'w\n'), (['    w', '     x'], 'w\n x\n'), (['    w', '', '    x'], 'w\n\nx\n'), (['    w', '', '', '      x'], 'w\n\n\n  x\n'),
             (['     w', '    x'], ' w\nx\n'), (['    <a> &amp; *b*'], '<a> &amp; *b*\n'), (['    - w'], '- w\n'), (['    # w', '    > x'], '# w\n> x\n')]
    for lines, content in cases:
        yield ('indented', lines, '<pre><code>%s</code></pre>\n' % esc(content), dict(lines=lines), False)
    # lines of white space only are blank lines: before the first chunk they are not part of the block (label 'lead' = number of such
    # lines, the block starts after them), between chunks they keep what exceeds four columns, after the last chunk they are dropped
    for lines, content, lead in [(['      ', '    w'], 'w\n', 1), (['    ', '    w'], 'w\n', 1), (['     ', '', '    w'], 'w\n', 2), (['       ', '      ', '     w'], ' w\n', 2),
                                 (['    w', '      ', '    x'], 'w\n  \nx\n', 0), (['    w', '    ', '    x'], 'w\n\nx\n', 0), (['    w', '  ', '    x'], 'w\n\nx\n', 0),
                                 (['    w', '      '], 'w\n', 0), (['    w', '', '     ', '  '], 'w\n', 0), (['    w', '     ', '      x', '    '], 'w\n \n  x\n', 0)]:
        yield ('indented', lines, '<pre><code>%s</code></pre>\n' % esc(content), dict(lines=lines, lead=lead), False)
    for lines in (['      '], ['    ', '     '], ['    ', '', '      ']):
        yield ('indented-blank', lines, '', dict(lines=lines), False)
    tabs = [(['\t<div>'], '<div>\n'), (['  \t<!-- c -->'], '<!-- c -->\n'), ([' \t<pre>', '\tx'], '<pre>\nx\n'), (['\tw'], 'w\n'), (['  \tw'], 'w\n'), (['    \tw'], '\tw\n'), (['\t\tw'], '\tw\n'), (['\tw', '    x'], 'w\nx\n'), (['   \tw\tx'], 'w\tx\n')]
    for lines, content in tabs:
        yield ('indented-tab', lines, '<pre><code>%s</code></pre>\n' % esc(content), dict(lines=lines), False)
    for lines, content, lead in [(['\t', '\tw'], 'w\n', 1), (['\t\t', '    w'], 'w\n', 1), (['  \t ', '', '\tw'], 'w\n', 2), (['\tw', '\t\t', '\tx'], 'w\n\t\nx\n', 0), (['\tw', ' \t ', '\tx'], 'w\n \nx\n', 0),
                                 (['\tw', '\t\t\t\t\t', '\tx'], 'w\n\t\t\t\t\nx\n', 0), (['\tw', '\t\t'], 'w\n', 0)]:
        yield ('indented-tab', lines, '<pre><code>%s</code></pre>\n' % esc(content), dict(lines=lines, lead=lead), False)
    for lines in (['\t'], ['\t\t'], ['  \t  ']):
        yield ('indented-blank', lines, '', dict(lines=lines), False)


# ------------------------------------------------------------------------------------------- HTML blocks (4.6)
def html_blocks():
    """(lines, ends-at-its-last-line?) - kinds 1-5 end with the line holding the end condition, kinds 6-7 at a blank line"""
    k = []
    for tag in ('pre', 'script', 'style', 'textarea', 'PRE'):
        k.append(([('<%s>' % tag), 'a *b*', '', 'c', '</%s> t' % tag], True, 1))
        k.append((['<%s class="x">a</%s>' % (tag, tag)], True, 1))
        k.append((['<%s' % tag, 'x="y">', '', '</%s>' % tag], True, 1))
    k += [(['<!-- a -->'], True, 2), (['<!--', 'a', '', 'b', '--> t'], True, 2), (['<!-- a', '-->'], True, 2), (['  <!---->'], True, 2),
          (['<?php', '', 'echo 1;', '?> t'], True, 3), (['<?x?>'], True, 3),
          (['<!DOCTYPE html>'], True, 4), (['<!A b', '', 'c> t'], True, 4), (['<pre\tx>', '', 'c</pre>'], True, 1),
          (['<![CDATA[', 'x', '', 'y', ']]> t'], True, 5), (['<![CDATA[x]]>'], True, 5)]
    for tag in ('div', 'table', 'p', 'h1', 'li', 'DIV', 'details'):
        k.append((['<%s>' % tag, 'a *b*', '</%s>' % tag], False, 6))
        k.append((['</%s>' % tag, 'a'], False, 6))
        k.append((['<%s' % tag, 'a>'], False, 6))
        k.append((['<%s/>' % tag], False, 6))
        k.append((['   <%s class="x">a' % tag], False, 6))
    k += [(['<a href="x">', '*b*'], False, 7), (['</ins>', '*b*'], False, 7), (['<x-y a="b" c=\'d\' e=f g />'], False, 7), (['<del>  ', 'x'], False, 7),
          (['  <b2>', 'x'], False, 7)]
    for lines, self_ending, kind in k:
        yield ('html', lines, '\n'.join(lines) + '\n', dict(kind=kind, lines=lines), self_ending)


# ------------------------------------------------------------------------------------------- tables (GFM)
def tables():
    al = {'---': 'left', ':--': 'left', '--:': 'right', ':-:': 'center', '-': 'left', ':-': 'left', '-:': 'right', ' :---: ': 'center', '----------': 'left'}
    delim_sets = [('---', '---'), (':--', '--:'), (':-:', '-'), ('-:', ':-'), (' :---: ', '----------')]
    pipe_styles = ('both', 'none', 'lead', 'trail', 'tight')
    bodies = [[], [['c', 'd']], [['c', 'd'], ['e', 'f']], [['c']], [['', 'd']], [['a\\|b', '`x\\|y`']], [['*e*', '<b>']],
              # an escaped pipe touching the edge of the row (with the 'none' / 'lead' / 'trail' styles there is no border pipe next to it)
              [['c', 'y\\|']], [['\\|c', 'd']], [['\\|', '\\|']]]

    def row(cells, style, short=False):
        if style == 'tight':
            return '|' + '|'.join(cells) + '|'
        s = ' | '.join(cells)
        if style in ('both', 'lead') or (style in ('none', 'trail') and (len(cells) < 2 or cells[0] == '')):
            # without a leading pipe a first cell that is empty could not be told from the optional leading pipe
            s = '| ' + s
        if style in ('both', 'trail'):
            s = s + ' |'
        return s

    for delims, style, body in itertools.product(delim_sets, pipe_styles, bodies):
        lines = [row(['h', 'k'], style), row(list(delims), style)] + [row(r, style) for r in body]
        aligns = [al[d] for d in delims]

        def cells(tag, cs):
            cs = list(cs) + [''] * (2 - len(cs))
            return ''.join('<%s align="%s">%s</%s>\n' % (tag, a, cell_html(c), tag) for c, a in zip(cs, aligns))
        html = '<table>\n<thead>\n<tr>\n%s</tr>\n</thead>\n<tbody>\n%s</tbody>\n</table>\n' % (
            cells('th', ['h', 'k']), ''.join('<tr>\n%s</tr>\n' % cells('td', r) for r in body))
        yield ('table', lines, html, dict(delims=delims, pipes=style, body=body), False)
    # one column
    for d in ('-', ':-:', '---'):
        yield ('table', ['| h |', '| %s |' % d, '| c |'], '<table>\n<thead>\n<tr>\n<th align="%s">h</th>\n</tr>\n</thead>\n<tbody>\n<tr>\n<td align="%s">c</td>\n</tr>\n</tbody>\n</table>\n' % (al[d], al[d]),
               dict(delims=(d,), pipes='both', body=[['c']]), False)
    # not tables: delimiter row with a different number of cells, or no delimiter row
    for lines in (['| h | k |', '| --- |'], ['| h | k |', '| c | d |'], ['h | k', '---'][:1] + ['--- | --- | ---']):
        yield ('table-not', lines, '<p>%s</p>\n' % '\n'.join(esc(l) for l in lines), dict(lines=lines), False)


def cell_html(c):
    return {'y\\|': 'y|', '\\|c': '|c', '\\|': '|', 'a\\|b': 'a|b', '`x\\|y`': '<code>x|y</code>', '*e*': '<em>e</em>', '<b>': '<b>'}.get(c, esc(c))


# ------------------------------------------------------------------------------------------- paragraphs (4.8)
def paragraphs():
    cases = [(['w'], 'w'), (['  w', ' x'], 'w\nx'), (['w', '        x'], 'w\nx'), (['w   '], 'w'), (['w', 'x  '], 'w\nx'), (['   w', '   x', '   y'], 'w\nx\ny'),
             (['w  ', 'x'], 'w<br />\nx'), (['w\\', 'x'], 'w<br />\nx'), (['w \\'], 'w \\'), (['w', '    # x'], 'w\n# x'), (['w', '====='[:0] + '   = ='], 'w\n= =')]
    for lines, want in cases:
        yield ('para', lines, '<p>%s</p>\n' % want, dict(lines=lines), False)


# ------------------------------------------------------------------------------------------- thematic breaks (4.1)
def breaks():
    for ch, n, gap, indent, trail in itertools.product('*-_', (3, 4, 7), ('', ' ', '  \t'), (0, 1, 3), ('', '  ')):
        line = ' ' * indent + gap.join([ch] * n) + trail
        yield ('hr', [line], '<hr />\n', dict(ch=ch, n=n, gap=gap, indent=indent, trail=trail), False)
    for line in ('--', '**', '__', '+++', '===', '*-', '--a', 'a---', '---a---'):
        yield ('hr-not', [line], '<p>%s</p>\n' % esc(line), dict(line=line), False)


# ------------------------------------------------------------------------------------------- list markers followed by a tab (2.2, 5.2)
def list_tabs():
    """a tab after the list marker: the content column is the next tab stop after the marker (1-4 columns of padding)"""
    for indent, (m, tag, attr) in itertools.product(range(4), (('-', 'ul', ''), ('+', 'ul', ''), ('1.', 'ol', ''), ('10.', 'ol', ' start="10"'), ('7)', 'ol', ' start="7"'))):
        end = indent + len(m)
        col = (end // 4 + 1) * 4
        first = ' ' * indent + m + '\tw'
        yield ('list-tab', [first, '', ' ' * col + 'x'], '<%s%s>\n<li>\n<p>w</p>\n<p>x</p>\n</li>\n</%s>\n' % (tag, attr, tag),
               dict(indent=indent, marker=m, shape='two paragraphs'), False)
        yield ('list-tab', [first, ' ' * col + '- y'], '<%s%s>\n<li>w\n<ul>\n<li>y</li>\n</ul>\n</li>\n</%s>\n' % (tag, attr, tag),
               dict(indent=indent, marker=m, shape='nested list'), False)
        yield ('list-tab', [first, ' ' * col + 'x'], '<%s%s>\n<li>w\nx</li>\n</%s>\n' % (tag, attr, tag),
               dict(indent=indent, marker=m, shape='continuation line'), False)


# ------------------------------------------------------------------------------------------- lazy continuation lines (5.1, 5.2)
def lazy_lines():
    """paragraph continuation text without the container's marker / indentation. A lazy line indented four or more columns stays
    paragraph text whatever it looks like; a lazy line can never be a setext underline"""
    texts = [('x', 'x'), ('    # x', '# x'), ('    - x', '- x'), ('    1. x', '1. x'), ('    ***', '***'), ('    ```', '```'), ('     <b>', '<b>'),
             ('    > x', '&gt; x'), ('    | a |', '| a |'), ('   x', 'x'), ('===', '==='), ('  =', '='), ('\t<b>', '<b>'), ('\t<div>', '<div>'),
             ('\t# x', '# x')]
    for raw, want in texts:
        yield ('lazy', ['> w', raw], '<blockquote>\n<p>w\n%s</p>\n</blockquote>\n' % want, dict(container='quote', line=raw), False)
        yield ('lazy', ['> > w', raw], '<blockquote>\n<blockquote>\n<p>w\n%s</p>\n</blockquote>\n</blockquote>\n' % want, dict(container='quote in quote', line=raw), False)
        yield ('lazy', ['> - w', raw], '<blockquote>\n<ul>\n<li>w\n%s</li>\n</ul>\n</blockquote>\n' % want, dict(container='item in quote', line=raw), False)
        if not raw.startswith('    ') or True:
            # in a list item a line indented to the content column or beyond is an ordinary continuation line; fewer columns = lazy
            if not raw.startswith(('  ', '\t')):
                yield ('lazy', ['- w', raw], '<ul>\n<li>w\n%s</li>\n</ul>\n' % want, dict(container='item', line=raw), False)
                yield ('lazy', ['10. w', ' ' + raw], '<ol start="10">\n<li>w\n%s</li>\n</ol>\n' % want, dict(container='ordered item', line=' ' + raw), False)


# ------------------------------------------------------------------------------------------- counts, sizes and boundary values
def bounds():
    """the same constructs at the boundary values of the specification and beyond the single-digit / small-count range"""
    def li(tag, items, attr=''):
        return '<%s%s>\n%s</%s>\n' % (tag, attr, ''.join('<li>%s</li>\n' % i for i in items), tag)
    # ordered list start numbers: 1-9 digits, leading zeros; ten digits are no list marker
    for num, start in (('0', 0), ('1', 1), ('9', 9), ('10', 10), ('99', 99), ('100', 100), ('007', 7), ('123456789', 123456789), ('000000001', 1)):
        for d in '.)':
            yield ('bounds', ['%s%s w' % (num, d)], li('ol', ['w'], '' if start == 1 else ' start="%d"' % start), dict(what='ordered start', marker=num + d), False)
    for num in ('1234567890', '0000000001'):
        yield ('bounds', ['%s. w' % num], '<p>%s. w</p>\n' % num, dict(what='ten digits', marker=num), False)
    # the marker grows from one to two (and three) digits inside one list; continuation lines follow the width of their own item
    for first in (8, 9, 98, 99):
        items = list(range(first, first + 4))
        lines = []
        for n in items:
            m = '%d. ' % n
            lines += [m + 'i%d' % n, ' ' * len(m) + 'c%d' % n]
        yield ('bounds', lines, li('ol', ['i%d\nc%d' % (n, n) for n in items], ' start="%d"' % first), dict(what='marker width grows', first=first), False)
    for n in (9, 10, 11, 12, 30):
        yield ('bounds', ['%d. i%d' % (i, i) for i in range(1, n + 1)], li('ol', ['i%d' % i for i in range(1, n + 1)]), dict(what='items', n=n), False)
        yield ('bounds', ['- i%d' % i for i in range(1, n + 1)], li('ul', ['i%d' % i for i in range(1, n + 1)]), dict(what='bullet items', n=n), False)
    # numbers that jump, repeat or carry leading zeros, with a second block in the wide item
    for markers in (('1.', '10.'), ('5.', '5.', '100.'), ('007.',), ('9.', '10.', '11.'), ('1)', '123456789)')):
        lines, items = [], []
        for k, m in enumerate(markers):
            lines += ['%s i%d' % (m, k), '', ' ' * (len(m) + 1) + 'c%d' % k] + ([''] if k < len(markers) - 1 else [])
            items.append('<li>\n<p>i%d</p>\n<p>c%d</p>\n</li>\n' % (k, k))
        st = int(markers[0][:-1])
        yield ('bounds', lines, '<ol%s>\n%s</ol>\n' % ('' if st == 1 else ' start="%d"' % st, ''.join(items)), dict(what='jumping numbers', markers=markers), False)
    # tables with many columns / rows
    for ncol in (9, 10, 11, 17):
        al = [(None, '---', 'left'), (0, ':-:', 'center'), (1, '--:', 'right')]
        cols = [al[i % 3] for i in range(ncol)]
        head = '| ' + ' | '.join('h%d' % i for i in range(ncol)) + ' |'
        delim = '| ' + ' | '.join(c[1] for c in cols) + ' |'
        rows = ['| ' + ' | '.join('r%dc%d' % (r, i) for i in range(ncol)) + ' |' for r in range(12)]
        th = ''.join('<th align="%s">h%d</th>\n' % (c[2], i) for i, c in enumerate(cols))
        body = ''.join('<tr>\n%s</tr>\n' % ''.join('<td align="%s">r%dc%d</td>\n' % (c[2], r, i) for i, c in enumerate(cols)) for r in range(12))
        yield ('bounds', [head, delim] + rows, '<table>\n<thead>\n<tr>\n%s</tr>\n</thead>\n<tbody>\n%s</tbody>\n</table>\n' % (th, body), dict(what='table columns', n=ncol), False)
    # many inline elements in one paragraph / heading
    for n in (9, 10, 16, 17, 33):
        yield ('bounds', [' '.join('*e%d*' % i for i in range(n))], '<p>%s</p>\n' % ' '.join('<em>e%d</em>' % i for i in range(n)), dict(what='emphasis count', n=n), False)
        yield ('bounds', [' '.join('[t%d](/u%d)' % (i, i) for i in range(n))], '<p>%s</p>\n' % ' '.join('<a href="/u%d">t%d</a>' % (i, i) for i in range(n)), dict(what='link count', n=n), False)
        yield ('bounds', ['## ' + ' '.join('`c%d`' % i for i in range(n))], '<h2>%s</h2>\n' % ' '.join('<code>c%d</code>' % i for i in range(n)), dict(what='code spans in a heading', n=n), False)
        yield ('bounds', ['x' * n + ' ' + '`' * n + 'c' + '`' * n], '<p>%s <code>c</code></p>\n' % ('x' * n), dict(what='backtick run length', n=n), False)
    # nesting depth
    for n in (9, 10, 11, 20):
        yield ('bounds', ['> ' * n + 'w'], '<blockquote>\n' * n + '<p>w</p>\n' + '</blockquote>\n' * n, dict(what='quote depth', n=n), False)
        yield ('bounds', ['- ' * n + 'w'], '<ul>\n<li>\n' * (n - 1) + '<ul>\n<li>w</li>\n</ul>\n' + '</li>\n</ul>\n' * (n - 1), dict(what='list depth', n=n), False)
        yield ('bounds', [' '.join('*_'[i % 2] + 'x' for i in range(n)) + ' w ' + ' '.join('x' + '*_'[i % 2] for i in reversed(range(n)))],
               '<p>' + '<em>x ' * n + 'w' + ' x</em>' * n + '</p>\n', dict(what='emphasis depth', n=n), False)
    # long lines and words
    for n in (255, 256, 1023, 1024, 4095, 4096, 4097):
        yield ('bounds', ['w' * n], '<p>%s</p>\n' % ('w' * n), dict(what='word length', n=n), False)
        yield ('bounds', [' '.join(['ab'] * (n // 3))], '<p>%s</p>\n' % ' '.join(['ab'] * (n // 3)), dict(what='line length', n=n), False)
        yield ('bounds', ['# ' + 'w' * n], '<h1>%s</h1>\n' % ('w' * n), dict(what='heading length', n=n), False)
    # link labels: at most 999 characters between the brackets
    for n in (1, 99, 100, 998, 999):
        lab = 'l' * n
        yield ('bounds', ['[%s]: /u' % lab, '', '[%s] [t][%s]' % (lab, lab)], '<p><a href="/u">%s</a> <a href="/u">t</a></p>\n' % lab, dict(what='label length', n=n), False)
    for n in (1000, 1001):
        lab = 'l' * n
        yield ('bounds', ['[%s]: /u' % lab, '', '[%s] [t][%s]' % (lab, lab)], '<p>[%s]: /u</p>\n<p>[%s] [t][%s]</p>\n' % (lab, lab, lab), dict(what='label too long', n=n), False)
    # autolink scheme: 2-32 characters
    for n in (1, 2, 3, 31, 32, 33):
        sch = 'a' * n
        ok = 2 <= n <= 32
        yield ('bounds', ['<%s:x>' % sch], '<p><a href="%s:x">%s:x</a></p>\n' % (sch, sch) if ok else '<p>&lt;%s:x&gt;</p>\n' % sch, dict(what='scheme length', n=n), False)
    # indentation 3 vs 4 columns
    for line, html3 in (('# w', '<h1>w</h1>\n'), ('***', '<hr />\n'), ('> w', '<blockquote>\n<p>w</p>\n</blockquote>\n'), ('- w', '<ul>\n<li>w</li>\n</ul>\n'),
                        ('1. w', '<ol>\n<li>w</li>\n</ol>\n'), ('<div>', '   <div>\n'), ('[r]: /u', '')):
        yield ('bounds', ['   ' + line], html3, dict(what='indent 3', line=line), False)
        yield ('bounds', ['    ' + line], '<pre><code>%s\n</code></pre>\n' % esc(line), dict(what='indent 4', line=line), False)


def lazy_then_block():
    """a list item / quote continued by one or more lazy lines and then, without a blank line, a block that interrupts the
    paragraph: the container ends there (checked for every lazy line, not only the first)"""
    inter = [('# h', '<h1>h</h1>\n'), ('***', '<hr />\n'), ('```', '<pre><code></code></pre>\n'), ('<div>', '<div>\n'),
             ('| a | b |\n|---|---|', '<table>\n<thead>\n<tr>\n<th align="left">a</th>\n<th align="left">b</th>\n</tr>\n</thead>\n<tbody>\n</tbody>\n</table>\n')]
    for nlazy in (0, 1, 2, 3):
        lz = ['l%d' % i for i in range(nlazy)]
        text = '\n'.join(['w'] + lz)
        for line, html in inter:
            yield ('lazy-then-block', ['- w'] + lz + line.split('\n'), '<ul>\n<li>%s</li>\n</ul>\n%s' % (text, html), dict(container='item', lazy=nlazy, then=line), False)
            yield ('lazy-then-block', ['7. w'] + lz + line.split('\n'), '<ol start="7">\n<li>%s</li>\n</ol>\n%s' % (text, html), dict(container='ordered item', lazy=nlazy, then=line), False)
            yield ('lazy-then-block', ['> w'] + lz + line.split('\n'), '<blockquote>\n<p>%s</p>\n</blockquote>\n%s' % (text, html), dict(container='quote', lazy=nlazy, then=line), False)
        yield ('lazy-then-block', ['- w'] + lz + ['> q'], '<ul>\n<li>%s</li>\n</ul>\n<blockquote>\n<p>q</p>\n</blockquote>\n' % text, dict(container='item', lazy=nlazy, then='> q'), False)
        yield ('lazy-then-block', ['> w'] + lz + ['- i'], '<blockquote>\n<p>%s</p>\n</blockquote>\n<ul>\n<li>i</li>\n</ul>\n' % text, dict(container='quote', lazy=nlazy, then='- i'), False)


FAMILIES = dict(lazy_then_block=lazy_then_block, bounds=bounds, list_tab=list_tabs, lazy=lazy_lines, fence=fences, atx=atx, setext=setext, indented=indented, html=html_blocks, table=tables, para=paragraphs, hr=breaks)
CONTEXTS = ['alone', 'then-paragraph', 'after-paragraph', 'in-quote', 'in-list-item', 'then-paragraph-directly',
            'in-quote-then-text', 'in-list-item-then-text']
# the last two: the container's last block is a leaf that is not a paragraph, and a line of text without marker / indentation follows
# directly. There is no paragraph to continue, so the line is not a lazy continuation line: the container ends before it.
NOT_BEFORE_TEXT = ('para', 'atx-not', 'hr-not', 'table-not', 'table', 'indented-blank')


def in_context(case, ctx):
    """-> (markdown text, expected html, 0-based line of the leaf's first line) or None if the context does not apply"""
    fam, lines, html, label, self_ending = case
    has_tab = any('\t' in l for l in lines)
    if fam in ('list-tab', 'lazy', 'bounds', 'lazy-then-block') and ctx not in ('alone', 'after-paragraph'):
        return None         # whole small documents of their own; placed at top level only
    if ctx == 'alone':
        return '\n'.join(lines) + '\n', html, 0
    if ctx == 'then-paragraph':
        if fam == 'fence' and label['close'] == 'unclosed':
            return None
        return '\n'.join(lines + ['', 'after']) + '\n', html + '<p>after</p>\n', 0
    if ctx == 'then-paragraph-directly':
        # blocks that end with their own last line may be followed by a paragraph without a blank line
        if not (fam in ('atx', 'setext', 'hr') or (fam == 'fence' and label['close'] != 'unclosed') or (fam == 'html' and self_ending)):
            return None
        return '\n'.join(lines + ['after']) + '\n', html + '<p>after</p>\n', 0
    if ctx == 'after-paragraph':
        return '\n'.join(['before', ''] + lines) + '\n', '<p>before</p>\n' + html, 2
    if fam == 'indented-blank' and ctx == 'in-list-item':
        return None         # the item would hold one paragraph only and stay tight: another template
    if ctx in ('in-quote-then-text', 'in-list-item-then-text'):
        if fam in NOT_BEFORE_TEXT or (fam == 'setext' and ctx == 'in-quote-then-text'):
            return None
        x = in_context(case, ctx[:-len('-then-text')])
        if x is None:
            return None
        return x[0] + 'after\n', x[1] + '<p>after</p>\n', x[2]
    if ctx == 'in-quote':
        if fam == 'setext' or has_tab or fam == 'indented-tab':
            return None
        if fam == 'hr' and False:
            return None
        return '\n'.join(('> ' + l) if l else '>' for l in lines) + '\n', '<blockquote>\n%s</blockquote>\n' % html, 0
    if ctx == 'in-list-item':
        if has_tab or fam == 'indented-tab':
            return None
        if fam in ('hr', 'hr-not') or (fam == 'setext' and label['level'] == 2):
            pass
        body = [('  ' + l) if l else '' for l in lines]
        return '\n'.join(['- b', ''] + body) + '\n', '<ul>\n<li>\n<p>b</p>\n%s</li>\n</ul>\n' % html, 2
    raise KeyError(ctx)


def blank_lines_emptied(case):
    """the same indented-code case with every white-space-only line written as an empty line (and the expected content to match)"""
    fam, lines, html, label, se = case
    new = [l if l.strip(' \t') else '' for l in lines]
    body = []
    for l in new:
        body.append(l[4:] if l else '')
    while body and body[-1] == '':
        body.pop()
    while body and body[0] == '':
        body.pop(0)
    return (fam, new, '<pre><code>%s</code></pre>\n' % esc('\n'.join(body) + '\n'), dict(label, lines=new), se)


def all_cases(fam):
    return list(FAMILIES[fam]())


def lazy_line_reinterpreted(case):
    """class predicate of the recorded finding KF-C03-lazy-line-reinterpreted: (a) a lazy line of a block quote that is
    indented at least to the content column of a list item inside that quote and looks like a block start or a quote marker is
    read by the item as its own indented continuation; (b) a lazy line after a list item's paragraph that looks like a setext
    underline makes the paragraph a heading"""
    fam, lines, html, label, _ = case
    if fam != 'lazy':
        return False
    if label['container'] == 'item in quote' and label['line'].startswith(('    ', '\t')) and label['line'].strip() not in ('x', '<b>', '| a |', '<div>'):
        return True
    if label['container'] in ('item', 'ordered item', 'item in quote') and set(label['line'].strip()) == {'='}:
        return True
    return False


def delimiter_count_mismatch(case):
    """class predicate of the recorded finding KF-C03-table-delimiter-cell-count: the second line is a delimiter row whose
    number of cells differs from the header row's"""
    import re
    fam, lines, html, label, _ = case
    if fam != 'table-not' or len(lines) < 2:
        return False
    if not re.fullmatch(r'\s*\|?\s*:?-+:?\s*(\|\s*:?-+:?\s*)*\|?\s*', lines[1]):
        return False

    def n(l):
        return len(l.strip().strip('|').split('|'))
    return n(lines[0]) != n(lines[1])


SHARDS = 8


def jobs():
    return [('leafspell', fam, sh) for fam in FAMILIES for sh in range(SHARDS if fam in ('fence', 'atx', 'setext', 'hr') else 1)]


def cases_of_job(job):
    _, fam, sh = job
    n = SHARDS if fam in ('fence', 'atx', 'setext', 'hr') else 1
    for i, case in enumerate(FAMILIES[fam]()):
        if i % n == sh:
            yield case
