"""Inertness predicate for C14: is a paragraph (list of lines, tokens joined by single spaces) made
only of characters in positions where CommonMark 0.30 / GFM tables+strikethrough give them no meaning?
Written from the spec; conservative (when in doubt the paragraph is *out* of the domain)."""
import re
import html
from html.entities import html5
from models import emphasis

BLOCK_STARTS = [
    ('atx', re.compile(r' {0,3}#{1,6}([ \t]|$)')),
    ('thematic', re.compile(r' {0,3}([-_*])[ \t]*(\1[ \t]*){2,}$')),
    ('quote', re.compile(r' {0,3}>')),
    ('fence', re.compile(r' {0,3}(`{3,}|~{3,})')),
    ('html', re.compile(r' {0,3}<')),
    ('linkdef', re.compile(r' {0,3}\[')),
    ('indent', re.compile(r' {4}')),
    ('tab', re.compile(r'\t')),
]
LIST_MARKER = re.compile(r' {0,3}([-+*]|\d{1,9}[.)])(?:$|[ \t]+(.*)$|[ \t]*$)')
SETEXT = re.compile(r' {0,3}(=+|-+)[ \t]*$')
# GFM table delimiter row: cells holding only hyphens with optional leading/trailing colon; a table needs one on line >= 2
DELIMITER_ROW = re.compile(r'^\s*\|?\s*:?-+:?\s*(\|\s*:?-+:?\s*)*\|?\s*$')
ENTITY = re.compile(r'&(#[0-9]{1,7}|#[xX][0-9a-fA-F]{1,6}|[A-Za-z][A-Za-z0-9]{0,31});')
ENTITY_LOOSE = re.compile(r'&([^\t\n\f <&#;]{1,32});')


def _cells(line):
    s_ = line.strip()
    if s_.startswith('|'):
        s_ = s_[1:]
    if s_.endswith('|') and not s_.endswith('\\|'):
        s_ = s_[:-1]
    return len(re.split(r'(?<!\\)\|', s_))


def why_not_inert(lines):
    """None if inert, else the name of the first rule that gives some character a meaning."""
    for i, l in enumerate(lines):
        if l.strip() == '':
            return 'blank-line'
        m = LIST_MARKER.match(l)
        if m:
            # first line: any list item. Later lines: a list item interrupts a paragraph only if it is not empty and,
            # when ordered, starts with 1 (spec 5.2); everything else is paragraph continuation text
            if i == 0:
                return 'block:list'
            if (m.group(2) or '').strip() != '' and (not m.group(1)[0].isdigit() or int(m.group(1)[:-1]) == 1):
                return 'block:list-interrupts-paragraph'
        for name, p in BLOCK_STARTS:
            if p.match(l):
                return 'block:' + name
        if i > 0 and SETEXT.match(l):
            return 'setext-underline'
        if i > 0 and '-' in l and DELIMITER_ROW.match(l):
            # GFM: a table needs a header row with as many cells as the delimiter row. A delimiter-like line WITH a pipe under a
            # line with another number of cells is nevertheless read as a table by this library (recorded finding of C03), so only
            # pipe-less delimiter lines under a header with a different cell count are taken as inert
            if '|' in l or _cells(lines[i - 1]) == _cells(l):
                return 'table-delimiter-row'
        if l.endswith('  '):
            return 'hard-break'
        if l.endswith('\\') and i < len(lines) - 1:
            return 'hard-break'
        if l != l.strip():
            return 'edge-space'
    t = '\n'.join(lines)
    runs = [len(r) for r in re.findall(r'`+', t)]
    if len(set(runs)) < len(runs):
        return 'code-span-candidate'      # a code span needs two backtick strings of EQUAL length; all others stay literal
    if re.search(r'\\[!-/:-@\[-`{-~]', t):
        return 'backslash-escape'
    for m in ENTITY.finditer(t):
        name = m.group(1)
        if name[0] == '#' or (name + ';') in html5:
            return 'character-reference'
    if re.search(r'<[A-Za-z/!?]', t):
        return 'html-or-autolink-candidate'
    if t.count('~~') >= 2:
        return 'strikethrough-candidate'
    if '](' in t or '][' in t:
        return 'link-candidate'
    if emphasis.has_emphasis(t):
        return 'emphasis'
    return None


def expected_html(lines):
    esc = lambda s: s.replace('&', '&amp;').replace('<', '&lt;').replace('>', '&gt;')
    return '<p>' + '\n'.join(esc(l) for l in lines) + '</p>\n'


def has_legacy_prefix_entity(lines):
    """class predicate of known finding KF-C14-legacy-entity-prefix: '&name;' where name is not an HTML5
    entity name but a proper prefix of it is a legacy (semicolon-less) HTML5 entity such as 'not', 'copy', 'amp'."""
    t = '\n'.join(lines)
    for m in ENTITY_LOOSE.finditer(t):
        s = m.group(1) + ';'
        if s in html5:
            continue
        for x in range(len(s) - 1, 1, -1):
            if s[:x] in html5:
                return True
    return False


def expected_html_with_legacy_prefix_decoding(lines):
    """What the output looks like if *only* the known legacy-prefix defect is present: every '&name;'
    of the class above has its longest legacy prefix replaced by the entity's character."""
    esc = lambda s: s.replace('&', '&amp;').replace('<', '&lt;').replace('>', '&gt;')

    def one(line):
        out = []
        pos = 0
        for m in ENTITY_LOOSE.finditer(line):
            s = m.group(1) + ';'
            rep = None
            if s not in html5:
                for x in range(len(s) - 1, 1, -1):
                    if s[:x] in html5:
                        rep = html5[s[:x]] + s[x:]
                        break
            if rep is None:
                continue
            out.append(esc(line[pos:m.start()]))
            out.append(esc(rep))
            pos = m.end()
        out.append(esc(line[pos:]))
        return ''.join(out)
    return '<p>' + '\n'.join(one(l) for l in lines) + '</p>\n'
