"""Scanner for LaTeXRenderer output (C17), written from the property statement and the renderer's documented
template vocabulary. Verbatim regions (\\verb, lstlisting bodies, math spans) and raw arguments (image source,
URL arguments, the language option) are located with the help of the token tree: the caller passes the list of
verbatim items in render order, the scanner consumes them where the corresponding command appears.

Returns None or a reason string whose prefix names the *site* (text, url-argument, includegraphics-argument,
lstlisting-language-option, lstlisting-body, verb, math, frame)."""
import re

FRAME = re.compile(r'\\documentclass\{article\}\n((?:\\usepackage[^\n]*\{[a-z]+\}\n)*)\\begin\{document\}\n(.*)\\end\{document\}\n\Z', re.S)
GROUP_CMDS = ('textbf', 'textit', 'sout', 'section', 'subsection', 'subsubsection')
PLAIN_CMDS = ('item', 'hline', 'hrulefill', 'newline')
ENVS = ('displayquote', 'itemize', 'enumerate', 'tabular', 'lstlisting')
CMD = re.compile(r'\\([a-zA-Z]+)')
ESCAPES = ('\\$', '\\#', '\\{', '\\}', '\\&', '\\_', '\\%')
SPECIALS = set('$#{}&_%^\\')


def items_from_tree(doc):
    """verbatim items in render order: ('code', language, content) ('verb', content) ('math', content)
    ('image', src) ('url', target) ('href', target)"""
    items = []

    def walk(t):
        name = type(t).__name__
        if name in ('CodeFence', 'BlockCode'):
            items.append(('code', t.language, t.children[0].content))
            return
        if name == 'InlineCode':
            items.append(('verb', t.children[0].content))
            return
        if name == 'Math':
            items.append(('math', t.content))
            return
        if name == 'Image':
            items.append(('image', t.src))
            return
        if name == 'AutoLink':
            items.append(('url', t.target))
            return
        if name == 'Link':
            items.append(('href', t.target))
        if name == 'Table' and hasattr(t, 'header'):
            walk(t.header)
        for c in (t.children or ()):
            walk(c)
    walk(doc)
    return items


def url_argument_problem(arg):
    """hyperref reading of a URL argument: balanced braces, % and # only escaped, no other backslash, no $ ^ newline"""
    depth = 0
    j = 0
    n = len(arg)
    while j < n:
        ch = arg[j]
        if ch == '\\':
            if arg[j + 1:j + 2] in ('%', '#'):
                j += 2
                continue
            return 'raw backslash'
        if ch in '%#':
            return 'raw ' + ch
        if ch == '{':
            depth += 1
        elif ch == '}':
            depth -= 1
            if depth < 0:
                return 'unbalanced }'
        elif ch in '$^\n ':
            return 'raw ' + repr(ch)
        j += 1
    if depth:
        return 'unbalanced {'
    return None


def scan(out, items):
    m = FRAME.match(out)
    if not m:
        return 'frame: document frame not found'
    body = m.group(2)
    items = list(items)
    pos = [0]

    def take(kind):
        if pos[0] < len(items) and items[pos[0]][0] == kind:
            it = items[pos[0]]
            pos[0] += 1
            return it
        return None

    i = 0
    n = len(body)
    groups = []        # stack of ('group', cmd) / ('env', name)
    while i < n:
        c = body[i]
        if c == '\\':
            for e in ESCAPES:
                if body.startswith(e, i):
                    i += 2
                    break
            else:
                if body.startswith('\\^{}', i):
                    i += 4
                    continue
                if body.startswith('\\textbackslash{}', i):
                    i += 16
                    continue
                if body.startswith('\\\\\n', i):
                    if not (groups and groups[-1] == ('env', 'tabular')):
                        return 'text: line break command outside tabular'
                    i += 3
                    continue
                cm = CMD.match(body, i)
                if not cm:
                    return 'text: stray backslash'
                name = cm.group(1)
                j = cm.end()
                if name == 'verb':
                    it = take('verb')
                    if it is None:
                        return 'verb: unexpected \\verb'
                    d = body[j:j + 1]
                    content = it[1]
                    if not body.startswith(d + content + d, j):
                        return 'verb: content differs from the code span'
                    if d in content or '\n' in content or d == '' or d.isalpha() or d == '*' or d == ' ':
                        return 'verb: delimiter occurs in content or is invalid'
                    i = j + len(content) + 2
                    continue
                if name in GROUP_CMDS:
                    if body[j:j + 1] != '{':
                        return 'text: command without group: ' + name
                    groups.append(('group', name))
                    i = j + 1
                    continue
                if name in PLAIN_CMDS:
                    i = j
                    continue
                if name in ('url', 'href'):
                    it = take(name)
                    if it is None:
                        return 'url-argument: unexpected \\' + name
                    if body[j:j + 1] != '{':
                        return 'url-argument: missing group'
                    # the argument ends at the brace that balances; find it the way TeX does
                    k = j + 1
                    depth = 1
                    while k < n and depth:
                        if body[k] == '\\' and k + 1 < n:
                            k += 2
                            continue
                        if body[k] == '{':
                            depth += 1
                        elif body[k] == '}':
                            depth -= 1
                        k += 1
                    if depth:
                        return 'url-argument: unterminated'
                    arg = body[j + 1:k - 1]
                    p = url_argument_problem(arg)
                    if p:
                        return 'url-argument: ' + p
                    i = k
                    if name == 'href':
                        if body[i:i + 1] != '{':
                            return 'url-argument: \\href without text group'
                        groups.append(('group', 'href'))
                        i += 1
                    continue
                if name == 'includegraphics':
                    it = take('image')
                    if it is None:
                        return 'includegraphics-argument: unexpected \\includegraphics'
                    src = it[1]
                    if not body.startswith('{' + src + '}', j):
                        return 'includegraphics-argument: differs from the image source'
                    bad = sorted(set(src) & set('{}%\\#$^&'))
                    if bad or '\n' in src:
                        return 'includegraphics-argument: raw special character'
                    i = j + len(src) + 2
                    continue
                if name == 'begin':
                    em = re.compile(r'\{([a-z]+)\}').match(body, j)
                    if not em or em.group(1) not in ENVS:
                        return 'text: \\begin of unknown environment'
                    env = em.group(1)
                    i = em.end()
                    if env == 'tabular':
                        am = re.compile(r'\{[lcr ]*\}').match(body, i)
                        if am:
                            i = am.end()
                    if env == 'lstlisting':
                        it = take('code')
                        if it is None:
                            return 'lstlisting-body: unexpected lstlisting'
                        lang, content = it[1], it[2]
                        head = '[language=' + lang + ']\n'
                        if not body.startswith(head, i):
                            return 'lstlisting-language-option: differs from the code block language'
                        if set(lang) & (SPECIALS | set(']')) or '\n' in lang:
                            return 'lstlisting-language-option: raw special character'
                        i += len(head)
                        if not body.startswith(content + '\\end{lstlisting}\n', i):
                            return 'lstlisting-body: differs from the code block content'
                        if '\\end{lstlisting}' in content:
                            return 'lstlisting-body: content closes the environment early'
                        i += len(content) + len('\\end{lstlisting}\n')
                        continue
                    groups.append(('env', env))
                    continue
                if name == 'end':
                    em = re.compile(r'\{([a-z]+)\}').match(body, j)
                    if not em:
                        return 'text: malformed \\end'
                    if not groups or groups[-1] != ('env', em.group(1)):
                        return 'text: \\end{%s} does not match the open group/environment' % em.group(1)
                    groups.pop()
                    i = em.end()
                    continue
                return 'text: control sequence outside the renderer vocabulary'
            continue
        if c == '{':
            return 'text: raw {'
        if c == '}':
            if not groups or groups[-1][0] != 'group':
                return 'text: raw }'
            groups.pop()
            i += 1
            continue
        if c == '$':
            it = take('math')
            if it is None or not body.startswith(it[1], i):
                return 'text: raw $'
            i += len(it[1])
            continue
        if c == '&':
            if groups and groups[-1] == ('env', 'tabular') and body[i - 1:i + 2] == ' & ':
                i += 1
                continue
            return 'text: raw &'
        if c in '#_%^':
            return 'text: raw ' + c
        i += 1
    if groups:
        return 'text: unclosed ' + groups[-1][1]
    if pos[0] != len(items):
        return 'frame: %s item of the token tree does not appear in the output' % items[pos[0]][0]
    return None
