"""CommonMark test normalisation (re-statement of the spec's test/normalize.py for Python 3).

Whitespace around block-level tags is insignificant, runs of whitespace outside <pre> collapse to
one space, attributes are sorted, character references are decoded (except the five that stay
escaped)."""
import re
import html as _html
from html.parser import HTMLParser
from html.entities import name2codepoint

_ws = re.compile(r'\s+')
_chunks = re.compile(r'<!\[CDATA\[.*?\]\]>|<[^>]*>|[^<]+|<', re.DOTALL)

BLOCK_TAGS = frozenset([
    'article', 'header', 'aside', 'hgroup', 'blockquote', 'hr', 'iframe', 'body', 'li', 'map',
    'button', 'object', 'canvas', 'ol', 'caption', 'output', 'col', 'p', 'colgroup', 'pre', 'dd',
    'progress', 'div', 'section', 'dl', 'table', 'td', 'dt', 'tbody', 'embed', 'textarea',
    'fieldset', 'tfoot', 'figcaption', 'th', 'figure', 'thead', 'footer', 'tr', 'form', 'ul',
    'h1', 'h2', 'h3', 'h4', 'h5', 'h6', 'video', 'script', 'style'])


class _P(HTMLParser):
    def __init__(self):
        HTMLParser.__init__(self, convert_charrefs=False)
        self.last = 'starttag'
        self.in_pre = False
        self.output = ''
        self.last_tag = ''

    def handle_data(self, data):
        after_tag = self.last in ('endtag', 'starttag')
        after_block_tag = after_tag and self.last_tag in BLOCK_TAGS
        if after_tag and self.last_tag == 'br':
            data = data.lstrip('\n')
        if not self.in_pre:
            data = _ws.sub(' ', data)
        if after_block_tag and not self.in_pre:
            if self.last == 'starttag':
                data = data.lstrip()
            elif self.last == 'endtag':
                data = data.strip()
        self.output += data
        self.last = 'data'

    def handle_endtag(self, tag):
        if tag == 'pre':
            self.in_pre = False
        elif tag in BLOCK_TAGS:
            self.output = self.output.rstrip()
        self.output += '</' + tag + '>'
        self.last_tag = tag
        self.last = 'endtag'

    def handle_starttag(self, tag, attrs):
        if tag == 'pre':
            self.in_pre = True
        if tag in BLOCK_TAGS:
            self.output = self.output.rstrip()
        self.output += '<' + tag
        if attrs:
            for k, v in sorted(attrs, key=lambda kv: (kv[0], kv[1] or '')):
                self.output += ' ' + k
                if v is not None:
                    self.output += '="' + _html.escape(v, quote=True) + '"'
        self.output += '>'
        self.last_tag = tag
        self.last = 'starttag'

    def handle_startendtag(self, tag, attrs):
        self.handle_starttag(tag, attrs)
        self.last_tag = tag
        self.last = 'endtag'

    def handle_comment(self, data):
        self.output += '<!--' + data + '-->'
        self.last = 'comment'

    def handle_decl(self, data):
        self.output += '<!' + data + '>'
        self.last = 'decl'

    def unknown_decl(self, data):
        self.output += '<!' + data + '>'
        self.last = 'decl'

    def handle_pi(self, data):
        self.output += '<?' + data + '>'
        self.last = 'pi'

    def handle_entityref(self, name):
        try:
            c = chr(name2codepoint[name])
        except KeyError:
            c = None
        self._char(c, '&' + name + ';')
        self.last = 'ref'

    def handle_charref(self, name):
        try:
            c = chr(int(name[1:], 16)) if name[:1] in 'xX' else chr(int(name))
        except (ValueError, OverflowError):
            c = None
        self._char(c, '&#' + name + ';')
        self.last = 'ref'

    def _char(self, c, fallback):
        if c == '<':
            self.output += '&lt;'
        elif c == '>':
            self.output += '&gt;'
        elif c == '&':
            self.output += '&amp;'
        elif c == '"':
            self.output += '&quot;'
        elif c is None:
            self.output += fallback
        else:
            self.output += c


def normalize_html(text):
    p = _P()
    for m in _chunks.finditer(text):
        c = m.group(0)
        if c.startswith('<![CDATA'):
            p.output += c
        else:
            p.feed(c)
    p.close()
    return p.output
