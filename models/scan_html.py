"""Strict scanner for HtmlRenderer output (C08). Written against the property statement, not the renderer:
only tags of the fixed vocabulary, per-tag attribute whitelist, attribute values double-quoted without
quote or angle bracket, void elements self-closed, proper nesting, text free of raw < > and with & only
as one of the five escapes the renderer is documented to produce."""
import re

VOID = {'hr', 'br', 'img'}
TAGS = {'p', 'h1', 'h2', 'h3', 'h4', 'h5', 'h6', 'blockquote', 'pre', 'code', 'ul', 'ol', 'li', 'table', 'thead',
        'tbody', 'tr', 'th', 'td', 'hr', 'br', 'a', 'img', 'em', 'strong', 'del'}
ATTRS = {'a': {'href', 'title'}, 'img': {'src', 'alt', 'title'}, 'ol': {'start'}, 'code': {'class'},
         'td': {'align'}, 'th': {'align'}}
TAG = re.compile(r'<(/?)([a-z][a-z0-9]*)((?: [a-z]+="[^"<>]*")*)( /)?>')
ATTR = re.compile(r' ([a-z]+)="([^"<>]*)"')
ENT = re.compile(r'&(amp|lt|gt|quot|#x27);')
PLACEHOLDER = ''      # stands for the verbatim content of a raw HTML block/span that was set aside

# where a tag may appear: parent -> allowed children (None = top level)
BLOCKS = {'p', 'h1', 'h2', 'h3', 'h4', 'h5', 'h6', 'blockquote', 'pre', 'ul', 'ol', 'table', 'hr'}
INLINE = {'a', 'img', 'em', 'strong', 'del', 'code', 'br'}
CONTENT = {
    None: BLOCKS, 'blockquote': BLOCKS, 'li': BLOCKS | INLINE,
    'ul': {'li'}, 'ol': {'li'}, 'table': {'thead', 'tbody'}, 'thead': {'tr'}, 'tbody': {'tr'}, 'tr': {'th', 'td'},
    'pre': {'code'},
    'p': INLINE, 'h1': INLINE, 'h2': INLINE, 'h3': INLINE, 'h4': INLINE, 'h5': INLINE, 'h6': INLINE,
    'th': INLINE, 'td': INLINE, 'a': INLINE, 'em': INLINE, 'strong': INLINE, 'del': INLINE, 'code': set(),
}
TEXT_OK = {'p', 'h1', 'h2', 'h3', 'h4', 'h5', 'h6', 'li', 'th', 'td', 'a', 'em', 'strong', 'del', 'code'}


def check_entities(s, where):
    i = s.find('&')
    while i >= 0:
        m = ENT.match(s, i)
        if not m:
            return 'raw & in %s' % where
        i = s.find('&', m.end())
    return None


def scan(out, dq=False, sq=False, strict_content=True):
    """None if well-formed, else a short reason (stable across inputs of one family)."""
    i = 0
    n = len(out)
    stack = []
    while i < n:
        c = out[i]
        if c == '<':
            m = TAG.match(out, i)
            if not m:
                return 'malformed tag'
            close, name, attrs, selfc = m.groups()
            if name not in TAGS:
                return 'tag outside vocabulary: ' + name
            if close:
                if attrs or selfc:
                    return 'attributes on closing tag'
                if not stack or stack[-1] != name:
                    return 'mismatched closing tag: ' + name
                stack.pop()
            else:
                parent = stack[-1] if stack else None
                if strict_content and name not in CONTENT.get(parent, set()):
                    return 'tag %s not allowed in %s' % (name, parent or 'document')
                seen = set()
                for am in ATTR.finditer(attrs):
                    an, av = am.groups()
                    if an not in ATTRS.get(name, ()):
                        return 'attribute %s not allowed on %s' % (an, name)
                    if an in seen:
                        return 'duplicate attribute %s on %s' % (an, name)
                    seen.add(an)
                    e = check_entities(av, 'attribute ' + an)
                    if e:
                        return e
                    if PLACEHOLDER in av:
                        return 'raw html inside attribute ' + an
                if name in VOID:
                    if not selfc:
                        return 'void element not self-closed: ' + name
                else:
                    if selfc:
                        return 'self-closed non-void element: ' + name
                    stack.append(name)
            i = m.end()
        elif c == '>':
            return 'raw > in text'
        elif c == '&':
            m = ENT.match(out, i)
            if not m:
                return 'raw & in text'
            i = m.end()
        else:
            if strict_content and c not in '\n' and c != PLACEHOLDER:
                parent = stack[-1] if stack else None
                if parent not in TEXT_OK:
                    return 'text directly inside %s' % (parent or 'document')
            if dq and c == '"':
                return 'raw double quote in text with html_escape_double_quotes'
            if sq and c == "'":
                return 'raw single quote in text with html_escape_single_quotes'
            i += 1
    if stack:
        return 'unclosed element: ' + stack[-1]
    return None
