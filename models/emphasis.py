"""Reference model: the CommonMark 0.30 delimiter-run algorithm for '*' and '_' (spec 6.2 and the
appendix "process emphasis"), for texts made of letters, spaces, punctuation and delimiter runs -
no links, code spans, escapes or line breaks. Written from the specification text.

openers_bottom is deliberately left out: with the 0.30 bucketing it is a pure optimisation (a
closer kind that found no opener below a position never finds one there later), so the plain
quadratic search *is* the specification."""
import html
import unicodedata

ASCII_PUNCT = set('!"#$%&\'()*+,-./:;<=>?@[\\]^_`{|}~')


def is_ws(c):
    """Unicode whitespace character, spec 0.30: Zs, tab, line feed, form feed, carriage return."""
    return c in '\t\n\x0c\r' or unicodedata.category(c) == 'Zs'


def is_punct(c):
    """ASCII punctuation character or anything in the general Unicode categories P*."""
    return c in ASCII_PUNCT or unicodedata.category(c).startswith('P')


def scan(text):
    nodes = []
    i = 0
    n = len(text)
    while i < n:
        c = text[i]
        if c in '*_':
            j = i
            while j < n and text[j] == c:
                j += 1
            before = text[i - 1] if i > 0 else '\n'      # beginning/end of line count as whitespace
            after = text[j] if j < n else '\n'
            lf = (not is_ws(after)) and (not is_punct(after) or is_ws(before) or is_punct(before))
            rf = (not is_ws(before)) and (not is_punct(before) or is_ws(after) or is_punct(after))
            if c == '*':
                co, cc = lf, rf
            else:
                co = lf and (not rf or is_punct(before))
                cc = rf and (not lf or is_punct(after))
            nodes.append(dict(kind='delim', ch=c, n=j - i, orig=j - i, can_open=co, can_close=cc, active=True))
            i = j
        else:
            j = i
            while j < n and text[j] not in '*_':
                j += 1
            nodes.append(dict(kind='text', s=text[i:j]))
            i = j
    return nodes


def process(nodes):
    pos = 0
    while True:
        while pos < len(nodes) and not (nodes[pos]['kind'] == 'delim' and nodes[pos]['can_close'] and nodes[pos]['active']):
            pos += 1
        if pos >= len(nodes):
            break
        closer = nodes[pos]
        found = None
        j = pos - 1
        while j >= 0:
            o = nodes[j]
            if o['kind'] == 'delim' and o['active'] and o['ch'] == closer['ch'] and o['can_open']:
                odd = ((o['can_close'] or closer['can_open'])
                       and (o['orig'] + closer['orig']) % 3 == 0
                       and not (o['orig'] % 3 == 0 and closer['orig'] % 3 == 0))
                if not odd:
                    found = j
                    break
            j -= 1
        if found is not None:
            opener = nodes[found]
            k = 2 if opener['n'] >= 2 and closer['n'] >= 2 else 1
            inner = nodes[found + 1:pos]
            for d in inner:
                if d['kind'] == 'delim':
                    d['active'] = False
            wrap = dict(kind='strong' if k == 2 else 'em', children=inner)
            opener['n'] -= k
            closer['n'] -= k
            nodes[:] = nodes[:found + 1] + [wrap] + nodes[pos:]
            pos = found + 2
            if opener['n'] == 0:
                del nodes[found]
                pos -= 1
            if closer['n'] == 0:
                del nodes[pos]
        else:
            if not closer['can_open']:
                closer['active'] = False
            pos += 1
    return nodes


def to_html(nodes):
    out = []
    for d in nodes:
        if d['kind'] == 'text':
            out.append(html.escape(d['s'], quote=False))
        elif d['kind'] == 'delim':
            out.append(d['ch'] * d['n'])
        else:
            out.append('<%s>%s</%s>' % (d['kind'], to_html(d['children']), d['kind']))
    return ''.join(out)


def model(text):
    return to_html(process(scan(text)))


def has_emphasis(text):
    return any(d['kind'] in ('em', 'strong') for d in process(scan(text)))
