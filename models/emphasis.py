"""Reference model: CommonMark 0.30 delimiter-run algorithm for * and _ only (no links/code/escapes)."""
import unicodedata, html
def is_ws(c):  # unicode whitespace per spec 0.30: Zs, tab, LF, FF, CR
    return c in '\t\n\x0c\r' or unicodedata.category(c)=='Zs'
ASCII_PUNCT=set('!"#$%&\'()*+,-./:;<=>?@[\\]^_`{|}~')
def is_punct(c):
    return c in ASCII_PUNCT or unicodedata.category(c).startswith('P')
def scan(text):
    """nodes: list of dict(kind='text'|'delim', s=..., ch, n, orig, can_open, can_close)"""
    nodes=[]; i=0; n=len(text)
    while i<n:
        c=text[i]
        if c in '*_':
            j=i
            while j<n and text[j]==c: j+=1
            before=text[i-1] if i>0 else '\n'
            after=text[j] if j<n else '\n'
            lf = (not is_ws(after)) and (not is_punct(after) or is_ws(before) or is_punct(before))
            rf = (not is_ws(before)) and (not is_punct(before) or is_ws(after) or is_punct(after))
            if c=='*': co,cc=lf,rf
            else:
                co = lf and (not rf or is_punct(before))
                cc = rf and (not lf or is_punct(after))
            nodes.append(dict(kind='delim',ch=c,n=j-i,orig=j-i,can_open=co,can_close=cc))
            i=j
        else:
            j=i
            while j<n and text[j] not in '*_': j+=1
            nodes.append(dict(kind='text',s=text[i:j])); i=j
    return nodes
def process(nodes):
    # nodes is a flat list; we mutate by wrapping
    bottoms={}
    pos=0
    def key(d): return (d['ch'], d['orig']%3, d['can_open'])
    while True:
        # find next closer
        while pos<len(nodes) and not (nodes[pos]['kind']=='delim' and nodes[pos]['can_close'] and nodes[pos].get('active',True)):
            pos+=1
        if pos>=len(nodes): break
        closer=nodes[pos]
        bottom=None
        j=pos-1; found=None
        while j>=0:
            o=nodes[j]
            if bottom is not None and o is bottom: break
            if o['kind']=='delim' and o.get('active',True) and o['ch']==closer['ch'] and o['can_open']:
                odd = (o['can_close'] or closer['can_open']) and (o['orig']+closer['orig'])%3==0 and not (o['orig']%3==0 and closer['orig']%3==0)
                if not odd:
                    found=j; break
            j-=1
        if found is not None:
            opener=nodes[found]
            k=2 if opener['n']>=2 and closer['n']>=2 else 1
            inner=nodes[found+1:pos]
            for d in inner:
                if d['kind']=='delim': d['active']=False
            wrap=dict(kind='strong' if k==2 else 'em', children=inner)
            opener['n']-=k; closer['n']-=k
            new=nodes[:found+1]+[wrap]+nodes[pos:]
            nodes[:]=new
            pos=found+2  # index of closer
            if opener['n']==0:
                del nodes[found]; pos-=1
            if closer['n']==0:
                del nodes[pos]   # pos now points to next element
        else:
            # bottom := element before current position
            prev=None
            j=pos-1
            # element before in the *delimiter stack*: previous active delimiter; using node identity of previous node is equivalent for search cut-off if we stop at first node <= it.
            bottoms[key(closer)]=nodes[pos-1] if pos>0 else 'START'
            if pos==0: bottoms[key(closer)]=None  # nothing below anyway
            if not closer['can_open']:
                closer['active']=False
            pos+=1
    return nodes
def to_html(nodes):
    out=[]
    for d in nodes:
        if d['kind']=='text': out.append(html.escape(d['s'],quote=False))
        elif d['kind']=='delim': out.append(d['ch']*d['n'])
        else: out.append('<%s>%s</%s>'%(d['kind'],to_html(d['children']),d['kind']))
    return ''.join(out)
def model(text):
    return to_html(process(scan(text)))
if __name__=='__main__':
    import sys
    for t in sys.argv[1:]: print(repr(t), model(t))
