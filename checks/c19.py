"""C19 - the table of contents lists exactly the qualifying headings, in order (E2-style outlines + reference model)."""
import itertools
from mc import core

ID = 'C19'
TECHNIQUE = ('exhaustive enumeration of all heading outlines of length 0..4/0..6 over levels 1-6 x ATX/setext spelling x '
             'placement (top level, quote, list item) x title markup x depth 1-6 x omit_title x filter subsets; the List '
             'token returned by TocRenderer.toc is flattened and compared with a reference model; plus a two-document '
             'history on one instance (accumulation observed, repeatable reads judged)')
ASSUMPTIONS = ['domain as in the property: the qualifying headings form an outline; titles are plain words with optional emphasis/code/link markup',
               'setext headings are not placed inside block quotes (recorded defect of C03/C04, not of the TOC)']
BOUNDS = {'quick': 4, 'thorough': 6}
MARKUP = ['{w}', '*{w}* x', '`{w}` y', '[{w}](/u) z', '**{w}**', '{w} &amp; v', '{w} \\* u', '~~{w}~~ t', '***{w}*** ***a*** ***b*** ***c*** ***d*** `e` `f`',
          # raw inline HTML (markup: dropped, its text content stays), text that merely looks like a tag or a character reference
          # (escaped, or inside a code span: stays as text)
          '{w} <kbd class="k">k</kbd> v', '{w} \\<b\\> v', '`&copy;` {w} &amp;copy; v', '{w} <!-- c --> v']
PLAIN = {9: '{w} k v', 10: '{w} <b> v', 11: '&copy; {w} &copy; v', 12: '{w}  v'}


def describe(tier):
    return dict(max_headings=BOUNDS[tier], levels='1-6', spellings=['atx', 'setext for levels 1-2'], placements=['top', 'quote', 'list item'],
                title_markup=MARKUP, titles=['all distinct', 'all equal'], depth='1-6', omit_title=[True, False], filters='none / title contains "zz" for every subset (<=3 headings) or single heading')


def outlines(n):
    """all level sequences of length n with l[0] == min and l[i+1] <= l[i] + 1"""
    def rec(seq):
        if len(seq) == n:
            yield tuple(seq)
            return
        if not seq:
            for l in range(1, 7):
                yield from rec([l])
            return
        for l in range(seq[0], min(6, seq[-1] + 1) + 1):
            yield from rec(seq + [l])
    if n == 0:
        yield ()
    else:
        yield from rec([])


def is_outline(levels):
    return not levels or (levels[0] == min(levels) and all(b <= a + 1 for a, b in zip(levels, levels[1:])))


def long_outlines():
    """long runs of siblings (9-12 and 30 headings on one level), each possibly followed by one child: ordinals, list markers and
    anything else that grows with the count must not change the nesting"""
    for n in (9, 10, 11, 12, 30):
        for top in (1, 2):
            for child_at in (None, 0, n - 3, n - 2, n - 1, 'all'):
                levels = []
                for i in range(n):
                    levels.append(top)
                    if child_at == 'all' or child_at == i:
                        levels.append(top + 1)
                        if child_at != 'all':
                            levels.append(top + 2)
                yield tuple(([1] if top == 2 else []) + levels)


def jobs(tier):
    js = [('long',)]
    for n in range(0, BOUNDS[tier] + 1):
        outs = list(outlines(n))
        step = max(1, len(outs) // 64)
        for lo in range(0, len(outs), step):
            js.append((n, lo, lo + step))
    return js


def write_doc(levels, spell, place, marks, zz, repeat=False):
    """returns (markdown, [(level, plain title)])"""
    lines = []
    heads = []
    for i, lv in enumerate(levels):
        w = ('w' if repeat else 'w%d' % (i + 1)) + ('zz' if i in zz else '')
        title = MARKUP[marks[i]].format(w=w)
        plain = (title.replace('\\*', '\0').replace('*', '').replace('\0', '*').replace('`', '').replace('[', '').replace('](/u)', '')
                 .replace('&amp;', '&').replace('~~', ''))
        plain = plain.replace('`', '')
        if marks[i] in PLAIN:
            plain = PLAIN[marks[i]].format(w=w)
        heads.append((lv, plain))
        if spell[i] in ('setext', 'setext-indented') and lv <= 2:
            h = [title, ('   ' if spell[i] == 'setext-indented' else '') + ('===' if lv == 1 else '---')]
        else:
            h = ['#' * lv + ' ' + title]
        if place[i] == 'quote':
            h = ['> ' + x for x in h]
        elif place[i] == 'item':
            h = ['- ' + h[0]] + ['  ' + x for x in h[1:]]
        elif place[i] == 'item-lazy':
            # the heading is the second block of an item whose first paragraph is continued by a lazy line
            h = ['- p', 'lazy', ''] + ['  ' + x for x in h]
        lines += h + ['', 'text %d' % i, '']
    return '\n'.join(lines) + '\n', heads


def model(heads, depth, omit_title, zz_filter):
    q = [(lv, t) for lv, t in heads if lv <= depth and not (omit_title and lv == 1) and not (zz_filter and 'zz' in t)]
    if not q:
        return []
    base = min(lv for lv, _ in q)
    return [(lv - base, t) for lv, t in q]


def flatten(tok, depth=0):
    """List token -> [(nesting depth, item paragraph text)]; raises ValueError on an unexpected shape"""
    if type(tok).__name__ != 'List':
        raise ValueError('toc is a %s, not a List' % type(tok).__name__)
    out = []
    for item in tok.children:
        kids = list(item.children)
        if not kids or type(kids[0]).__name__ != 'Paragraph':
            raise ValueError('toc item does not start with a paragraph')
        text = ''.join(getattr(c, 'content', '') for c in kids[0].children)
        out.append((depth, text))
        for k in kids[1:]:
            out.extend(flatten(k, depth + 1))
    return out


def evaluate(md, heads, depth, omit, zz_filter):
    from mistletoe import Document
    from mistletoe.contrib.toc_renderer import TocRenderer
    core.fresh()
    conds = [lambda text: 'zz' in text] if zz_filter else []
    want = model(heads, depth, omit, zz_filter)
    try:
        with TocRenderer(depth=depth, omit_title=omit, filter_conds=conds) as r:
            html1 = r.render(Document(md))
            try:
                toc = r.toc
            except IndexError as e:
                if not want:
                    return dict(sig='toc-raises-on-empty-table', detail=repr(e), kf='KF-C19-empty-table-raises')
                raise
            got = flatten(toc)
            again = flatten(r.toc)
    except ValueError as e:
        return dict(sig='toc-shape:' + str(e), expected=want)
    except Exception as e:
        return dict(sig=core.exc_sig(e), detail=repr(e))
    if got != want:
        return dict(sig='toc-differs-from-model', expected=want, observed=got)
    if again != got:
        return dict(sig='toc-read-not-repeatable', expected=got, observed=again)
    return None


def configs_for(levels):
    n = len(levels)
    spells = [['atx'] * n]
    if any(l <= 2 for l in levels):
        spells.append(['setext'] * n)
        if n >= 2:
            spells.append(['setext' if i % 2 else 'atx' for i in range(n)])
        spells.append(['setext-indented'] * n)      # underline indented by three spaces
    if n <= 2:
        places = list(itertools.product(('top', 'quote', 'item', 'item-lazy'), repeat=n))
    elif n <= 3:
        places = list(itertools.product(('top', 'quote', 'item'), repeat=n)) + [('item-lazy',) * n]
    else:
        places = [('top',) * n, ('quote',) * n, ('item',) * n, tuple(('top', 'quote', 'item')[i % 3] for i in range(n))]
    if n <= 3:
        zzs = [frozenset(s) for k in range(n + 1) for s in itertools.combinations(range(n), k)]
    else:
        zzs = [frozenset()] + [frozenset([i]) for i in range(n)]
    markss = [tuple(0 for _ in range(n)), tuple((i + 1) % len(MARKUP) for i in range(n)), tuple((i + 8) % len(MARKUP) for i in range(n)), tuple((i + 5) % len(MARKUP) for i in range(min(n, 1)))+ tuple(0 for _ in range(max(0, n - 1))),
              tuple((i + 10) % len(MARKUP) for i in range(n))]
    for spell in spells:
        for place in places:
            if any(s in ('setext', 'setext-indented') and p == 'quote' and l <= 2 for s, p, l in zip(spell, place, levels)):
                continue
            for zz in zzs:
                for marks in markss:
                    yield spell, place, marks, zz, False
                if n >= 2:
                    yield spell, place, markss[0], zz, True      # every heading carries the same title


def run_job(job):
    r = core.Result()
    if job[0] == 'long':
        for levels in long_outlines():
            n = len(levels)
            for spell in (['atx'] * n, ['setext' if l <= 2 else 'atx' for l in levels]):
                md, heads = write_doc(levels, spell, ['top'] * n, [0] * n, frozenset())
                r.states += 1
                for depth in (1, 2, 3, 6):
                    for omit in (True, False):
                        q = [lv for lv, t in heads if lv <= depth and not (omit and lv == 1)]
                        if not is_outline(q):
                            r.skip('qualifying headings do not form an outline')
                            continue
                        r.transitions += 1
                        r.validated += 1
                        f = evaluate(md, heads, depth, omit, False)
                        if f:
                            r.fail(dict(markdown=md, heads=heads, depth=depth, omit_title=omit, filter_zz=False), f['sig'], f.get('detail', ''),
                                   kf=f.get('kf'), expected=f.get('expected'), observed=f.get('observed'))
                        r.outcome('long-outline')
        r.sample(dict(space='long runs of siblings'), 1)
        return r
    n, lo, hi = job
    outs = list(outlines(n))[lo:hi]
    for levels in outs:
        for spell, place, marks, zz, repeat in configs_for(levels):
            md, heads = write_doc(levels, spell, place, marks, zz, repeat)
            r.states += 1
            for depth in range(1, 7):
                for omit in (True, False):
                    for zz_filter in ((False, True) if zz else (False,)):
                        q = [lv for lv, t in heads if lv <= depth and not (omit and lv == 1) and not (zz_filter and 'zz' in t)]
                        if not is_outline(q):
                            r.skip('qualifying headings do not form an outline')
                            continue
                        r.transitions += 1
                        r.validated += 1
                        f = evaluate(md, heads, depth, omit, zz_filter)
                        if f:
                            r.fail(dict(markdown=md, heads=heads, depth=depth, omit_title=omit, filter_zz=zz_filter), f['sig'], f.get('detail', ''),
                                   kf=f.get('kf'), expected=f.get('expected'), observed=f.get('observed'))
                        r.outcome('entries=%d' % min(len(q), 4))
        # accumulation on one instance: observed (not judged), second read must not raise beyond the known empty case
    if outs:
        md, heads = write_doc(outs[0], ['atx'] * n, ['top'] * n, [0] * n, frozenset())
        r.sample(dict(levels=list(outs[0]), markdown=md), 1)
        acc = accumulation(md, heads)
        r.extra['accumulation_observed'] = {acc: 1}
    return r


def accumulation(md, heads):
    """render the same document twice on one instance: what does toc show? (observation only)"""
    from mistletoe import Document
    from mistletoe.contrib.toc_renderer import TocRenderer
    core.fresh()
    try:
        with TocRenderer(depth=6, omit_title=False) as r:
            r.render(Document(md))
            one = flatten(r.toc) if heads else []
            r.render(Document(md))
            two = flatten(r.toc) if heads else []
        return 'second document appended to the first table' if two == one + one else ('table replaced' if two == one else 'other')
    except Exception as e:
        return 'raises:' + type(e).__name__


def replay(case):
    heads = [tuple(h) for h in case['heads']]
    return evaluate(case['markdown'], heads, case['depth'], case['omit_title'], case['filter_zz'])
