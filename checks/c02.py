"""C02 - all 652 CommonMark 0.30 examples (complete enumeration of a finite domain)."""
import os
import json
import hashlib
from mc import core
from models.cm_normalize import normalize_html

ID = 'C02'
TECHNIQUE = ('complete enumeration of the finite normative corpus (652 examples) against the spec-normalised expected HTML: each '
             'example from pristine state, and the whole corpus in document order and in reverse order in one process')
ASSUMPTIONS = ['corpus/commonmark-0.30.json is the 0.30 spec corpus (sha256 asserted)',
               'normalisation = re-statement of the spec test driver normalize.py']
CORPUS = os.path.join(core.VERIF, 'corpus', 'commonmark-0.30.json')
SHA = 'ae6129f3ce3caf4f99cf4f9a5ad3558a309652b5b887171013e2bf0797289b98'
NSHARD = 16
_cache = None


def corpus():
    global _cache
    if _cache is None:
        raw = open(CORPUS, 'rb').read()
        if hashlib.sha256(raw).hexdigest() != SHA:
            raise SystemExit('HARNESS-ERROR corpus checksum mismatch')
        _cache = json.loads(raw.decode('utf-8'))
        assert len(_cache) == 652
    return _cache


def jobs(tier):
    # 16 shards with a pristine reset before every example, plus the whole corpus in document order (and in reverse
    # order) in one process *without* resets in between - the way the upstream spec driver runs it
    return list(range(NSHARD)) + ['in-order', 'reverse-order']


def describe(tier):
    return dict(examples=652, sections=len({e['section'] for e in corpus()}), corpus_sha256=SHA)


def evaluate(ex, reset=True):
    from mistletoe import Document, HtmlRenderer
    if reset:
        core.fresh()
    try:
        with core.time_limit(10):
            with HtmlRenderer(html_escape_double_quotes=True) as r:
                got = r.render(Document(ex['markdown']))
    except Exception as e:
        return dict(sig='exception:' + type(e).__name__, detail=repr(e))
    if normalize_html(got) != normalize_html(ex['html']):
        return dict(sig='html-differs', expected=ex['html'], observed=got)
    return None


def run_job(shard):
    r = core.Result()
    if shard in ('in-order', 'reverse-order'):
        core.fresh()
        seq = corpus() if shard == 'in-order' else list(reversed(corpus()))
        for ex in seq:
            r.transitions += 1
            r.validated += 1
            f = evaluate(ex, reset=False)
            if f:
                r.fail(dict(example=ex['example'], markdown=ex['markdown'], mode=shard), 'example-%d:%s:%s' % (ex['example'], shard, f['sig']),
                       f.get('detail', ''), expected=f.get('expected'), observed=f.get('observed'))
        r.outcome(shard)
        return r
    for ex in corpus():
        if ex['example'] % NSHARD != shard:
            continue
        r.states += 1
        r.transitions += 1
        r.validated += 1
        f = evaluate(ex)
        r.outcome(ex['section'])
        r.sample(dict(example=ex['example'], markdown=ex['markdown']), 1)
        if f:
            r.fail(dict(example=ex['example'], markdown=ex['markdown']), 'example-%d:%s' % (ex['example'], f['sig']),
                   f.get('detail', ''), expected=f.get('expected'), observed=f.get('observed'))
    return r


def finalize(agg, tier):
    if agg.states != 652:
        raise SystemExit('HARNESS-ERROR C02 visited %d examples, expected 652' % agg.states)


def replay(case):
    mode = case.get('mode')
    if mode in ('in-order', 'reverse-order'):
        core.fresh()
        seq = corpus() if mode == 'in-order' else list(reversed(corpus()))
        for ex in seq:
            f = evaluate(ex, reset=False)
            if ex['example'] == case['example']:
                if f:
                    f['sig'] = 'example-%d:%s:%s' % (ex['example'], mode, f['sig'])
                return f
        return None
    ex = [e for e in corpus() if e['example'] == case['example']][0]
    f = evaluate(ex)
    if f:
        f['sig'] = 'example-%d:%s' % (ex['example'], f['sig'])
    return f
