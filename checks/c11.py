"""C11 - results depend only on input and renderer, never on earlier library use (E3: explicit-state BFS over the
real library's global state; transitions call the real API, including parses with injected faults)."""
import os
import re
import sys
import json
import hashlib
import subprocess
import multiprocessing as mp
from mc import core, configs, pristine

ID = 'C11'
TECHNIQUE = ('explicit-state breadth-first search over the canonical snapshot of every mistletoe module global / class '
             'attribute plus live renderer instances; transitions = enter renderer (11, stack <= 2), exit, parse+render one of '
             '12 probes, parse with a custom token that raises at the k-th call of find/constructor/start/read at every token '
             'list position; at every empty-stack state the observation vector (12 probes x 11 renderers + 12 ASTs + token '
             'lists) must equal the one of a fresh interpreter')
ASSUMPTIONS = ['states with equal canonical snapshots have equal futures (checked: every new state is rebuilt by replaying its '
               'history in another worker and must hash to the same key)',
               'outputs inside nested contexts are not judged, only the state left behind once the stack is empty']

RENDERERS = [('Html', {}), ('Html', dict(process_html_tokens=False)), ('Markdown', {}), ('LaTeX', {}), ('Ast', {}), ('Toc', {}),
             ('GithubWiki', {}), ('MathJax', {}), ('Pygments', {}), ('Jira', {}), ('XWiki20', {}),
             ('Pygments', dict(fail_on_unsupported_language=True))]
# option variants that are only observed (never entered as history operations): a result must not depend on which options
# earlier renderer instances were created with
OBS_EXTRA = [('Html', dict(html_escape_double_quotes=True, html_escape_single_quotes=True)),
             ('Markdown', dict(max_line_length=10, normalize_whitespace=True)), ('Toc', dict(omit_title=False, depth=2))]
PROBES = ['# h #\n', 't\n===\n', '> q\nl\n---\n', '```py\nc\n```\n', '<!-- c\n-->\n\n<div>\nx\n\ny\n', 'a `c` b\n',
          '[r]\n\n[r]: /u "t"\n', '|a|b|\n|-|-|\n|c|d|\n', '&amp; &copy;\n', '$m$ [[w|l]]\n', '{{m}}\nx\n{{/m}}\n', 'hello world\n',
          '<?p\n?>\n\n<b\nc>\n', '> ```\n> x\n\n* a\n\n  b\n', 'l1\n\n> l2\n> t\n> ===\n\n- l3 `c`\n',
          '<x-y>\nin\n\nafter *x*\n', '<pre>\nin\n\nstill\n</pre>\n\nafter *x*\n', '<!X y>\n\nafter *x*\n',
          '<![CDATA[\nin\n\n]]>\n\nafter *x*\n', '</x-y>\n\nafter *x*\n',
          # entity handling outside the inline tokenizer (definitions, info strings) depends on which pattern html._charref holds
          '[r]: /u?a&copy=1 "t&lt x&ampy"\n\n[r]\n', '``` a&copy&amp\nc\n```\n\n> [q]: <&reg> (&copy)\n>\n> ![q]\n',
          # a code block in a language Pygments does not know (strict mode refuses it, lenient mode guesses) and one it knows
          '```frobnicate\nlet x = 1\n```\n\n```python\nx = 1\n```\n',
          # headings that consist of the opening sequence only (every scratch attribute of Heading must be rewritten for them too)
          '#\n\n## \n\n### #\n']
FAULT_PROBES = [2, 5, 6, 13, 14]
# second part of the observation vector: every text of <= 2 (thorough: 3) lines over the line alphabet under the
# renderers whose constructors do not all touch the token lists (so that state left behind by an earlier context
# is not papered over by add_token/remove_token)
WIDE_RENDERERS = [('Html', {}), ('Html', dict(process_html_tokens=False)), ('Ast', {}), ('Markdown', {})]
WIDE_LINES = {'quick': 2, 'thorough': 2}
_WIDE_K = 2
FAULT_KINDS = ['find', 'sctor', 'start', 'read', 'bctor', 'render']
BOUNDS = {'quick': dict(depth=4, fault_depth=2, baseline='one-subprocess'),
          'thorough': dict(depth=6, fault_depth=3, baseline='subprocess-per-probe')}


def describe(tier):
    b = BOUNDS[tier]
    return dict(renderers=['%s%s' % (n, k or '') for n, k in RENDERERS], probes=PROBES, max_history_length=b['depth'],
                faults_applied_at_states_of_history_length_up_to=b['fault_depth'], fault_kinds=FAULT_KINDS,
                fault_probes=[PROBES[i] for i in FAULT_PROBES], max_context_stack=2, baseline=b['baseline'])


# ------------------------------------------------------------------------------------------------ operations
class Fault(Exception):
    pass


def make_fault(kind):
    from mistletoe import span_token, block_token
    st = {'n': 0, 'k': None}

    def tick():
        st['n'] += 1
        if st['k'] is not None and st['n'] == st['k']:
            raise Fault()
    if kind in ('find', 'sctor', 'render'):
        class Boom(span_token.SpanToken):
            pattern = re.compile(r'[a-z]')
            parse_inner = False
            parse_group = 0

            @classmethod
            def find(cls, s):
                if kind == 'find':
                    tick()
                return list(cls.pattern.finditer(s))[:1] if kind in ('sctor', 'render') else []

            def __init__(self, m):
                if kind != 'render':
                    tick()
                self.content = m.group(0)
    else:
        class Boom(block_token.BlockToken):
            @classmethod
            def start(cls, line):
                if kind == 'start':
                    tick()
                    return False
                return line.startswith('l')

            @classmethod
            def read(cls, lines):
                if kind == 'read':
                    tick()
                return [next(lines)]

            def __init__(self, r):
                if kind == 'bctor':
                    tick()
                self.children = []
    Boom._tick = staticmethod(tick)
    Boom._kind = kind
    return Boom, st


_INERT = {}


def inert_token(kind):
    from mistletoe import span_token, block_token
    if kind not in _INERT:
        if kind == 'span':
            class InertSpan(span_token.SpanToken):
                pattern = re.compile(r'\x00never')
                parse_inner = False
                parse_group = 0
            _INERT[kind] = InertSpan
        else:
            class InertBlock(block_token.BlockToken):
                @staticmethod
                def start(line):
                    return False
            _INERT[kind] = InertBlock
    return _INERT[kind]


def fault_renderer_class():
    from mistletoe.html_renderer import HtmlRenderer

    class FaultRenderer(HtmlRenderer):
        def render_boom(self, t):
            if type(t)._kind == 'render':
                type(t)._tick()        # the exception is raised while rendering, after a complete parse
            return ''
    return FaultRenderer


def apply(op, stack):
    from mistletoe import Document, span_token, block_token
    if op[0] == 'enter':
        if op[1] == len(RENDERERS):
            # contrib/scheme.py: a renderer that replaces both token lists outright in its constructor (entered as a
            # history operation only; its own output is not part of the observation vector)
            from mistletoe.contrib.scheme import Scheme
            r = Scheme()
        else:
            name, kw = RENDERERS[op[1]]
            r = configs.renderer_class(name)(**kw)
        r.__enter__()
        stack.append(r)
    elif op[0] == 'exit':
        r = stack.pop()
        r.__exit__(None, None, None)
    elif op[0] == 'run':
        d = Document(PROBES[op[1]])
        if stack:
            stack[-1].render(d)
    elif op[0] == 'addtok':
        # a user registers a custom token directly (public add_token API) while some renderer's context is active
        mod = span_token if op[1] == 'span' else block_token
        mod.add_token(inert_token(op[1]))
    elif op[0] == 'fault':
        _, kind, pos, k, j = op
        Boom, st = make_fault(kind)
        st['k'] = k
        try:
            with fault_renderer_class()(Boom) as r:
                mod = span_token if kind in ('find', 'sctor', 'render') else block_token
                mod.remove_token(Boom)
                mod.add_token(Boom, pos)
                r.render(Document(PROBES[j]))
        except Fault:
            pass
        return st['n']


def token_list_names():
    from mistletoe import span_token, block_token
    return [[t.__name__ for t in block_token._token_types], [t.__name__ for t in span_token._token_types]]


_DEFAULT_LISTS = None


def build(hist):
    pristine.restore()
    stack = []
    for op in hist:
        try:
            apply(tuple(op), stack)
        except Exception:
            pass
    return stack


def state_key(stack):
    s = pristine.canon()
    inst = [(type(r).__name__, repr(pristine._canon_val({k: v for k, v in vars(r).items() if k not in ('render_map', 'env')}))) for r in stack]
    blob = json.dumps([s, inst], sort_keys=True, default=str)
    return hashlib.sha1(blob.encode()).hexdigest()


def enabled(hist, depth_stack, fops, fault_ok):
    ops = []
    if depth_stack < 2:
        ops += [('enter', i) for i in range(len(RENDERERS) + 1)]
    if depth_stack > 0:
        ops.append(('exit',))
        ops += [('addtok', 'block'), ('addtok', 'span')]
    ops += [('run', j) for j in range(len(PROBES))]
    if depth_stack == 0 and fault_ok:
        ops += fops
    return ops


def fault_ops():
    """every (kind, list position, call index k, probe): k ranges over the calls that occur in the fault-free run"""
    from mistletoe import span_token, block_token
    ops = []
    for kind in FAULT_KINDS:
        pristine.restore()
        with fault_renderer_class()():
            npos = len(span_token._token_types) if kind in ('find', 'sctor', 'render') else len(block_token._token_types) + 1
        for pos in range(npos):
            for j in FAULT_PROBES:
                pristine.restore()
                n = apply(('fault', kind, pos, None, j), [])
                for k in range(1, n + 1):
                    ops.append(('fault', kind, pos, k, j))
    pristine.restore()
    return ops


# ------------------------------------------------------------------------------------------------ observation
def observe():
    """observation vector from the current (empty-stack) state; the state is reinstated between probes"""
    import mistletoe
    from mistletoe import Document, block_token, span_token
    from mistletoe.ast_renderer import get_ast
    cap = pristine.capture()
    out = []
    for d in PROBES:
        for name, kw in RENDERERS + OBS_EXTRA:
            pristine.reinstate(cap)
            try:
                with configs.renderer_class(name)(**kw) as r:
                    out.append(r.render(Document(d)))
            except Exception as e:
                out.append('EXC ' + type(e).__name__ + ' ' + str(e)[:80])
        pristine.reinstate(cap)
        try:
            out.append(json.dumps(get_ast(Document(d)), sort_keys=True, default=str))
        except Exception as e:
            out.append('EXC ' + type(e).__name__)
    pristine.reinstate(cap)
    out.append([t.__name__ for t in block_token._token_types])
    out.append([t.__name__ for t in span_token._token_types])
    # wide part: digest per renderer over all short texts of the line alphabet
    import itertools
    import hashlib
    from mc import spaces
    L = spaces.LINES
    for name, kw in WIDE_RENDERERS:
        h = hashlib.sha1()
        first_bad = None
        for n in range(1, _WIDE_K + 1):
            for ws in itertools.product(L, repeat=n):
                text = spaces.lines_text(ws)
                pristine.reinstate(cap)
                try:
                    with configs.renderer_class(name)(**kw) as r:
                        o = r.render(Document(text))
                except Exception as e:
                    o = 'EXC ' + type(e).__name__
                h.update(o.encode('utf-8', 'replace') + b'\0')
        out.append(h.hexdigest())
    pristine.reinstate(cap)
    return out


def wide_detail(base_state_hist):
    """which short text differs under which renderer (used only to describe a violation)"""
    import itertools
    from mistletoe import Document
    from mc import spaces
    res = []
    L = spaces.LINES

    def render_all(name, kw):
        cap = pristine.capture()
        outs = {}
        for n in range(1, _WIDE_K + 1):
            for ws in itertools.product(L, repeat=n):
                text = spaces.lines_text(ws)
                pristine.reinstate(cap)
                try:
                    with configs.renderer_class(name)(**kw) as r:
                        outs[text] = r.render(Document(text))
                except Exception as e:
                    outs[text] = 'EXC ' + type(e).__name__
        pristine.reinstate(cap)
        return outs
    for name, kw in WIDE_RENDERERS:
        pristine.restore()
        ref = render_all(name, kw)
        stack = build(base_state_hist)
        if stack:
            return res
        got = render_all(name, kw)
        for t in ref:
            if ref[t] != got[t]:
                res.append(dict(renderer=name + str(kw or ''), text=t, fresh=ref[t], after_history=got[t]))
                break
    return res


def obs_labels():
    labels = []
    for d in PROBES:
        for name, kw in RENDERERS + OBS_EXTRA:
            labels.append('%s%s on %r' % (name, kw or '', d))
        labels.append('AST of %r' % d)
    labels += ['block token list', 'span token list']
    labels += ['all texts of <= %d lines over the line alphabet under %s%s' % (_WIDE_K, n, k or '') for n, k in WIDE_RENDERERS]
    return labels


def baseline(mode):
    """observation vector of a fresh interpreter"""
    code = ('import sys, json; sys.path.insert(0, %r); sys.dont_write_bytecode = True\n'
            'from mc import core; core.import_repo()\n'
            'from checks import c11\n'
            'c11._WIDE_K = %d\n'
            'print(json.dumps(c11.observe()))\n') % (core.VERIF, _WIDE_K)
    env = dict(os.environ, PYTHONHASHSEED='0')
    if mode == 'one-subprocess':
        p = subprocess.run([sys.executable, '-c', code], capture_output=True, text=True, env=env, cwd=core.VERIF)
        if p.returncode != 0:
            raise SystemExit('HARNESS-ERROR C11 baseline subprocess failed:\n' + p.stderr[-2000:])
        return json.loads(p.stdout.strip().splitlines()[-1])
    # one fresh interpreter per probe document
    code1 = ('import sys, json; sys.path.insert(0, %r); sys.dont_write_bytecode = True\n'
             'from mc import core; core.import_repo()\n'
             'from checks import c11\n'
             'c11.PROBES[:] = [c11.PROBES[int(sys.argv[1])]]\n'
             'c11._WIDE_K = %d\n'
             'print(json.dumps(c11.observe()))\n') % (core.VERIF, _WIDE_K)
    procs = [subprocess.Popen([sys.executable, '-c', code1, str(i)], stdout=subprocess.PIPE, stderr=subprocess.PIPE, text=True, env=env, cwd=core.VERIF)
             for i in range(len(PROBES))]
    out = []
    tails = None
    for p in procs:
        so, se = p.communicate()
        if p.returncode != 0:
            raise SystemExit('HARNESS-ERROR C11 baseline subprocess failed:\n' + se[-2000:])
        v = json.loads(so.strip().splitlines()[-1])
        nt = 2 + len(WIDE_RENDERERS)
        out += v[:-nt]
        tails = v[-nt:]
    return out + tails


# ------------------------------------------------------------------------------------------------ workers
_BASE = None
_FOPS = None


def w_expand(args):
    """expand a shard of the frontier: returns [(new_hist, key, stack_depth)] and transition count"""
    hists, fault_depth, max_depth = args
    res = []
    n = 0
    for hist in hists:
        stack = build(hist)
        ops = enabled(hist, len(stack), _FOPS, len(hist) < fault_depth)
        for s in reversed(stack):
            try:
                s.__exit__(None, None, None)
            except Exception:
                pass
        for op in ops:
            stack = build(hist)
            try:
                apply(op, stack)
            except Exception:
                pass
            n += 1
            bad_exit = None
            if op[0] == 'exit':
                # "After a renderer's context exits, the active block and span token sets are exactly the defaults" -
                # judged after EVERY exit, also while an outer context is still open
                now = token_list_names()
                if now != _DEFAULT_LISTS:
                    bad_exit = now
            res.append((tuple(hist) + (op,), state_key(stack), len(stack), bad_exit))
            for s in reversed(stack):
                try:
                    s.__exit__(None, None, None)
                except Exception:
                    pass
    return res, n


def w_observe(args):
    """rebuild each state from its history (conformance: same key) and check the invariant"""
    items = args
    bad = []
    mism = []
    for hist, key in items:
        stack = build(hist)
        if state_key(stack) != key:
            mism.append(hist)
            continue
        if stack:
            continue
        o = observe()
        if o != _BASE:
            diffs = [i for i, (a, b) in enumerate(zip(o, _BASE)) if a != b]
            bad.append((hist, diffs[:4], [o[i] for i in diffs[:2]], [_BASE[i] for i in diffs[:2]]))
    return bad, mism, len(items)


SEQ_DOCS = ['foo\n<div>\nbar\n', '> q\n<!-- c -->\n', '- a\n<pre>x</pre>\n', 'foo\n| a |\n|---|\n', 'some text\n\n> q\n\n- i\n', 'a `c` b\n',
            '# h #\n\n#\n', '[r]\n\n[r]: /u "t"\n', 't\n===\n\n> t\n> ===\n', '```py\nc\n```\n\n$m$ [[w|l]]\n',
            '<!-- open', '<![CDATA[ open\n', '<div>\nfoo\n\n*bar*\n']
_SEQ_BASE = {}


def _one(ri, di):
    from mistletoe import Document
    name, kw = RENDERERS[ri]
    try:
        with configs.renderer_class(name)(**kw) as r:
            return r.render(Document(SEQ_DOCS[di]))
    except Exception as e:
        return 'EXC ' + type(e).__name__ + ' ' + str(e)[:80]


def w_sequences(firsts):
    from mistletoe import Document
    bad = []
    n = 0
    for ri in range(len(RENDERERS)):
        for di in range(len(SEQ_DOCS)):
            if (ri, di) not in _SEQ_BASE:
                pristine.restore()
                _SEQ_BASE[(ri, di)] = _one(ri, di)
    for first in firsts:
        for ri in range(len(RENDERERS)):
            for di in range(len(SEQ_DOCS)):
                pristine.restore()
                try:
                    if first[0] is None:
                        Document(SEQ_DOCS[first[1]])
                    else:
                        _one(first[0], first[1])
                except Exception:
                    pass
                got = _one(ri, di)
                n += 2
                if got != _SEQ_BASE[(ri, di)]:
                    bad.append((first, (ri, di), _SEQ_BASE[(ri, di)], got))
    return bad, n


PUMP_COUNTS = (70, 130, 300)


def pumped_histories():
    hs = []
    first = {}
    for op in _FOPS:
        key = (op[1], op[4], op[2] == 0)
        if op[3] == 1 and key not in first:
            first[key] = op
    last = {}
    for op in _FOPS:
        if op[3] == 1:
            last[(op[1], op[4])] = op
    ops = list(first.values()) + list(last.values())
    ops += [('run', j) for j in range(len(PROBES))]
    seen = set()
    for op in ops:
        if op in seen:
            continue
        seen.add(op)
        for n in PUMP_COUNTS:
            hs.append((op,) * n)
    return hs


def w_pumped(hists):
    bad = []
    n = 0
    for hist in hists:
        stack = build(hist)
        n += len(hist)
        if stack:
            continue
        o = observe()
        if o != _BASE:
            diffs = [i for i, (a, b) in enumerate(zip(o, _BASE)) if a != b]
            bad.append((hist, diffs[:4], [o[i] for i in diffs[:2]], [_BASE[i] for i in diffs[:2]]))
    return bad, n


def explore(tier, seed):
    global _BASE, _FOPS, _WIDE_K, _DEFAULT_LISTS
    b = BOUNDS[tier]
    pristine.restore()
    _DEFAULT_LISTS = token_list_names()
    _WIDE_K = WIDE_LINES[tier]
    pristine.restore()
    _BASE = baseline(b['baseline'])
    pristine.restore()
    here = observe()
    if here != _BASE:
        diffs = [i for i, (x, y) in enumerate(zip(here, _BASE)) if x != y]
        raise SystemExit('HARNESS-ERROR C11 pristine restore does not reproduce a fresh interpreter: %r' % [obs_labels()[i] for i in diffs[:5]])
    _FOPS = fault_ops()
    labels = obs_labels()
    agg = core.Result()
    agg.extra['fault_operations'] = len(_FOPS)
    agg.extra['observations_per_state'] = len(_BASE)
    pristine.restore()
    root_key = state_key([])
    seen = {root_key: ()}
    frontier = [()]
    ctx = mp.get_context('fork')
    nproc = core.NPROC
    rounds = 0
    with ctx.Pool(nproc) as pool:
        for level in range(b['depth']):
            if not frontier:
                break
            rounds += 1
            frontier.sort()
            if seed:
                k = seed % len(frontier)
                frontier = frontier[k:] + frontier[:k]
            nsh = max(1, min(len(frontier), nproc * 4))
            shards = [frontier[i::nsh] for i in range(nsh)]
            new = []
            for res, n in pool.imap_unordered(w_expand, [(sh, b['fault_depth'], b['depth']) for sh in shards]):
                agg.transitions += n
                new.extend(res)
            new.sort(key=lambda x: (len(x[0]), repr(x[0])))      # deterministic representative per state
            fresh_states = []
            for hist, key, sd, bad_exit in new:
                if bad_exit is not None:
                    agg.fail(dict(history=[list(op) for op in hist], after_exit=True), 'token-sets-not-default-after-exit',
                             detail='token lists right after the last exit of this history', expected=_DEFAULT_LISTS, observed=bad_exit)
                if key in seen:
                    continue
                seen[key] = hist
                fresh_states.append((hist, key, sd))
            # conformance + invariant on every new state
            items = [(h, k) for h, k, sd in fresh_states]
            nsh = max(1, min(len(items), nproc * 4))
            for bad, mism, cnt in pool.imap_unordered(w_observe, [items[i::nsh] for i in range(nsh)]):
                agg.validated += cnt
                for hist in mism:
                    raise SystemExit('HARNESS-ERROR C11 state does not rebuild deterministically from its history: %r' % (hist,))
                for hist, diffs, got, want in bad:
                    sig = 'history-changes-result:' + labels[diffs[0]].split(' on ')[0].split(' under ')[-1]
                    detail = 'differs: ' + '; '.join(labels[i] for i in diffs)
                    if diffs[0] >= len(labels) - len(WIDE_RENDERERS):
                        detail += ' ' + json.dumps(wide_detail(hist))[:600]
                    agg.fail(dict(history=[list(op) for op in hist]), sig, detail=detail, expected=want, observed=got)
            for hist, key, sd in fresh_states:
                agg.outcome('stack=%d' % sd)
            frontier = [h for h, k, sd in fresh_states]
            agg.extra['states_at_history_length_%d' % (level + 1)] = len(fresh_states)
    agg.states = len(seen)
    # pumped histories: one operation repeated many times (a counter or a cache that leaks a little per operation shows only once a
    # threshold is crossed - far beyond the history length the search can reach); one representative per fault kind at the first
    # and the last list position for every fault probe, and every probe run under Html and bare
    pumped = pumped_histories()
    with ctx.Pool(nproc) as pool:
        nsh = max(1, min(len(pumped), nproc * 2))
        for bad, n in pool.imap_unordered(w_pumped, [pumped[i::nsh] for i in range(nsh)]):
            agg.transitions += n
            for hist, diffs, got, want in bad:
                sig = 'history-changes-result:' + labels[diffs[0]].split(' on ')[0].split(' under ')[-1]
                agg.fail(dict(history=[list(hist[0])], repeat=len(hist), pumped=True), sig, detail='after the operation was repeated %d times; differs: %s' % (len(hist), '; '.join(labels[i] for i in diffs)),
                         expected=want, observed=got)
    agg.extra['pumped_histories'] = len(pumped)
    # plain two-step sequences executed in one go from a fresh state, WITHOUT the snapshot/reinstate of the search (which replaces
    # list objects by equal copies and would hide staleness that is keyed on object identity): first a bare Document(d1) or a
    # render under R1, then d2 under R2, compared with the fresh result of (R2, d2)
    firsts = [(None, i) for i in range(len(SEQ_DOCS))] + [(ri, i) for ri in range(len(RENDERERS)) for i in range(len(SEQ_DOCS))]
    with ctx.Pool(nproc) as pool:
        nsh = max(1, min(len(firsts), nproc * 4))
        for bad, n in pool.imap_unordered(w_sequences, [firsts[i::nsh] for i in range(nsh)]):
            agg.transitions += n
            for first, second, want, got in bad:
                agg.fail(dict(sequence=True, first=list(first), second=list(second)), 'second-step-differs-from-fresh:' + RENDERERS[second[0]][0],
                         detail='first: %s on %r; then %s on %r' % (RENDERERS[first[0]][0] if first[0] is not None else 'bare Document', SEQ_DOCS[first[1]],
                                                                     RENDERERS[second[0]][0], SEQ_DOCS[second[1]]), expected=want, observed=got)
    agg.extra['two_step_sequences'] = len(firsts) * len(RENDERERS) * len(SEQ_DOCS)
    reuse = instance_reuse()
    agg.extra['instance_reuse_pairs_judged'] = len(RENDERERS) * 9 * 8
    for rname, info in reuse.items():
        agg.fail(dict(instance_reuse=True, renderer=rname, first=info['example'][0], second=info['example'][1]),
                 'second-document-on-one-instance-differs:' + rname, detail='%d probe pairs differ' % info['pairs_that_differ'])
    agg.extra['closed'] = (not frontier)
    if frontier:
        agg.extra['frontier_left_at_bound'] = len(frontier)
    agg.samples = [dict(history=[list(op) for op in h]) for h in list(seen.values())[1:4]] + \
                  [dict(history=[list(_FOPS[0])])]
    return agg, rounds, nproc


def instance_reuse():
    """For which renderers does the SECOND document rendered by one instance (one context) come out differently from the
    same document rendered by a fresh instance? ("the output ... is the same whatever was ... rendered before ...: other
    documents"). 11 renderer configurations x 9 x 8 probe pairs."""
    from mistletoe import Document
    res = {}
    for name, kw in RENDERERS:
        n = 0
        example = None
        for d1 in PROBES[:8] + ['~~s~~ `c` ![i](/s) [l](/u)\n']:
            for d2 in PROBES[:8]:
                pristine.restore()
                try:
                    with configs.renderer_class(name)(**kw) as r:
                        fresh_out = r.render(Document(d2))
                    pristine.restore()
                    with configs.renderer_class(name)(**kw) as r:
                        r.render(Document(d1))
                        second = r.render(Document(d2))
                except Exception:
                    continue
                if second != fresh_out:
                    n += 1
                    example = example or [d1, d2]
        if n:
            res['%s%s' % (name, kw or '')] = dict(pairs_that_differ=n, example=example)
    pristine.restore()
    return res


def replay(case):
    global _BASE
    if case.get('instance_reuse'):
        res = instance_reuse()
        if case['renderer'] in res:
            return dict(sig='second-document-on-one-instance-differs:' + case['renderer'], detail=json.dumps(res[case['renderer']])[:300])
        return None
    if case.get('sequence'):
        bad, n = w_sequences([tuple(case['first'])])
        for first, second, want, got in bad:
            if list(second) == list(case['second']):
                return dict(sig='second-step-differs-from-fresh:' + RENDERERS[second[0]][0], expected=want, observed=got)
        return None
    if case.get('after_exit'):
        pristine.restore()
        want = token_list_names()
        build([tuple(op) for op in case['history']])
        now = token_list_names()
        if now != want:
            return dict(sig='token-sets-not-default-after-exit', expected=want, observed=now)
        return None
    pristine.restore()
    base = observe()
    hist = [tuple(op) for op in case['history']] * int(case.get('repeat', 1))
    stack = build(hist)
    if stack:
        return None
    o = observe()
    if o != base:
        labels = obs_labels()
        diffs = [i for i, (a, b) in enumerate(zip(o, base)) if a != b]
        return dict(sig='history-changes-result:' + labels[diffs[0]].split(' on ')[0].split(' under ')[-1], detail='differs: ' + '; '.join(labels[i] for i in diffs[:4]),
                    expected=[base[i] for i in diffs[:2]], observed=[o[i] for i in diffs[:2]])
    return None
