"""C05 - blocks separated by a blank line are parsed independently (E1, pairs over the line alphabet)."""
import itertools
from mc import core, spaces

ID = 'C05'
TECHNIQUE = ('exhaustive enumeration of all pairs (A, B) of texts over a 30-line alphabet (|A| <= 2/3, |B| <= 2 lines) that '
             'meet the side conditions; AST(A + blank + B) must equal AST(A) ++ shift(AST(B)) including line numbers')
ASSUMPTIONS = ['"defines link references" is over-approximated syntactically by the substring "]:" plus an empty footnotes table',
               'parsed with the HtmlRenderer token set (default tokens + HtmlBlock/HtmlSpan)']
CLOSED = {'Paragraph', 'Heading', 'SetextHeading', 'ThematicBreak', 'Quote', 'Table'}
BOUNDS = {'quick': (2, 2), 'thorough': (3, 2)}
L = spaces.LINES + ['<!-- x -->', '> <!-- c', '> ```', '> <?p', '<x-y>', '# h #', '#', '> | a | b |', '> |---|---|', '      ', '\ufeff# h']
# B is additionally enumerated to 3 lines over the lines that read or write parser scratch state
LB3 = ['<div>', '', 'foo', '```', '# h', '> q', '- a', '<!-- x -->', '===', '<x-y>', '-', '#', '      ']
# family F2: A = X + blank line + closing paragraph (so that any X qualifies as "ending in a closed block"); X holds
# look-aheads that are made but not consumed (indented table rows after a paragraph, ...)
LX = ['foo', '    | a | b |', '    |---|---|', '| a | b |', '|---|---|', '- a', '  b', '> q', '```', '<div>', '    c', '', '-', '===', '- # h', '> - a']
LT = ['-', '', '- a', 'foo']
LBX = LB3 + ['  b', '| a | b |', '|---|---|']


def describe(tier):
    return dict(line_alphabet=L, max_lines_A=BOUNDS[tier][0], max_lines_B=BOUNDS[tier][1], B_sub_alphabet_one_line_deeper=LB3)


def jobs(tier):
    ka, kb = BOUNDS[tier]
    sub = 1 if tier == 'quick' else 6
    js = [(i, ka, kb, j, sub) for i in range(len(L)) for j in range(sub)]
    step = 82 if tier == 'quick' else 16
    js += [('spec', lo, lo + step, 1 if tier == 'quick' else 2) for lo in range(0, 652, step)]
    # the Markdown renderer's token set (blank lines and link definitions are tokens of their own there): one-line A x all short B
    js += [('md', i) for i in range(len(L))]
    js += [('repeat', i) for i in range(len(REPEAT_UNITS))]
    if tier == 'quick':
        js += [('f2', 'LX', i, j, 3) for i in range(len(LX)) for j in range(len(LX))]
    else:
        js += [('f2', 'L', i, j, 3) for i in range(len(L) + 2) for j in range(len(L) + 2)]
    return js


def full_dump(tok):
    """every instance attribute of a token, recursively (the AST view only shows the documented repr attributes; scratch
    values copied from class attributes, such as Heading.closing_sequence or CodeFence.delimiter, live here)"""
    from mistletoe.token import Token
    d = {'type': type(tok).__name__}
    for k, v in sorted(vars(tok).items()):
        if k == '_parent':
            continue
        d['children' if k == '_children' else k] = _dump_val(v, Token)
    return d


def _dump_val(v, Token):
    if isinstance(v, Token):
        return full_dump(v)
    if isinstance(v, (list, tuple)):
        return [_dump_val(x, Token) for x in v]
    if isinstance(v, dict):
        return {str(k): _dump_val(x, Token) for k, x in v.items()}
    if v is None or isinstance(v, (str, int, float, bool)):
        return v
    return repr(v)


# A = one unit repeated n times and a closing paragraph (a counter that leaks once per unit would show at its threshold)
REPEAT_UNITS = [['-', ''], ['- a', ''], ['> q', ''], ['>', ''], ['```', 'c', '```', ''], ['# h', ''], ['<!-- c -->', ''], ['| a |', '|---|', ''],
                ['[l]', ''], ['1.', ''], ['- - x', ''], ['***', ''], ['    c', '']]
REPEAT_COUNTS = [31, 32, 33, 63, 64, 65, 99, 100, 101, 128, 255, 256, 257]
REPEAT_B = [['- one'], ['> q'], ['# h'], ['```', 'c', '```'], ['- a', '  - b', '    - c'], ['foo', '==='], ['| a |', '|---|'], ['1. x']]
TOKEN_SET = ['Html']
_SEP = {}


def ast_of(text):
    """per top-level block: the AstRenderer view and the full attribute dump"""
    from mistletoe import Document
    from mistletoe.html_renderer import HtmlRenderer
    from mistletoe.markdown_renderer import MarkdownRenderer
    from mistletoe.ast_renderer import get_ast
    core.fresh()
    with (MarkdownRenderer if TOKEN_SET[0] == 'Markdown' else HtmlRenderer)():
        doc = Document(text)
        return dict(type='Document', footnotes=get_ast(doc)['footnotes'],
                    children=[dict(type=type(c).__name__, ast=get_ast(c), full=full_dump(c)) for c in doc.children])


def shift(a, k):
    if isinstance(a, dict):
        return {kk: (v + k if kk == 'line_number' and v is not None else shift(v, k)) for kk, v in a.items()}
    if isinstance(a, list):
        return [shift(x, k) for x in a]
    return a


def texts(k):
    for n in range(1, k + 1):
        for ls in itertools.product(L, repeat=n):
            if ls[-1].strip() == '':
                continue
            yield list(ls)
    for ls in itertools.product(LB3, repeat=k + 1):
        if ls[-1].strip() == '':
            continue
        yield list(ls)


def side_ok(lines, a):
    text = '\n'.join(lines)
    if ']:' in text:
        return 'contains "]:"'
    if a['footnotes']:
        return 'defines link references'
    return None


def check_pair(A, B, a=None, b=None):
    """None, ('skip', why) or failure dict"""
    try:
        if a is None:
            a = ast_of('\n'.join(A) + '\n')
        if b is None:
            b = ast_of('\n'.join(B) + '\n')
    except Exception:
        return ('skip', 'A or B alone raises (C01)')
    why = side_ok(A, a) or side_ok(B, b)
    if why:
        return ('skip', why)
    if not a['children'] or a['children'][-1]['type'] not in CLOSED:
        return ('skip', 'A does not end in a closed block')
    text = '\n'.join(A + [''] + B) + '\n'
    try:
        ab = ast_of(text)
    except Exception as e:
        return dict(sig=core.exc_sig(e), detail=repr(e))
    # the separating blank line is itself a token under the Markdown renderer's token set (and nothing under the others)
    if TOKEN_SET[0] not in _SEP:
        _SEP[TOKEN_SET[0]] = ast_of('\n')['children']
    sep = _SEP[TOKEN_SET[0]]
    exp = a['children'] + shift(sep, len(A)) + shift(b['children'], len(A) + 1)
    if ab['footnotes']:
        return dict(sig='combined-document-defines-references', observed=ab['footnotes'])
    if ab['children'] != exp:
        import json
        same_shape = json.dumps(strip_ln(ab['children']), sort_keys=True) == json.dumps(strip_ln(exp), sort_keys=True)
        return dict(sig='line-numbers-differ' if same_shape else 'blocks-differ', expected=exp, observed=ab['children'])
    return None


def strip_ln(a):
    if isinstance(a, dict):
        return {k: strip_ln(v) for k, v in a.items() if k != 'line_number'}
    if isinstance(a, list):
        return [strip_ln(x) for x in a]
    return a


def spec_texts(lo, hi):
    from checks import c02
    for ex in c02.corpus()[lo:hi]:
        md = ex['markdown']
        if md.strip() == '' or not md.endswith('\n') or md.endswith('\n\n') or any(c in md for c in '\r\x0b\x0c'):
            continue
        yield md[:-1].split('\n')


def run_job(job):
    r = core.Result()
    if job[0] == 'spec':
        # spec examples as A (against all short B) and as B (against all one-line A)
        _, lo, hi, kb = job
        shortB = list(texts(kb))
        oneA = [[l] for l in L if l.strip()]
        for S in spec_texts(lo, hi):
            for other in shortB:
                judge(r, S, other)
            for other in oneA:
                judge(r, other, S)
        r.sample(dict(space='spec corpus as A and as B', examples=[lo + 1, hi]), 1)
        return r
    if job[0] == 'repeat':
        unit = REPEAT_UNITS[job[1]]
        for n in REPEAT_COUNTS:
            A = unit * n + ['closing paragraph']
            for B in REPEAT_B:
                judge(r, A, B)
        r.sample(dict(space='repeated unit', unit=unit, counts=REPEAT_COUNTS), 1)
        return r
    if job[0] == 'md':
        TOKEN_SET[0] = 'Markdown'
        try:
            A = [L[job[1]]]
            if A[0].strip():
                for B in texts(2):
                    judge(r, A, B, token_set='Markdown')
        finally:
            TOKEN_SET[0] = 'Html'
        r.sample(dict(space='Markdown token set', A=A), 1)
        return r
    if job[0] == 'f2':
        _, which, i, j, k = job
        alpha = LX if which == 'LX' else L + ['    | a | b |', '    |---|---|']
        Bs = [list(b) for n in (1, 2) for b in itertools.product(LBX, repeat=n) if b[-1].strip()]
        Bs += [list(b) for b in itertools.product(LT, repeat=3) if b[-1].strip()]
        # a table that is dispatched directly at the start / second line of a list item's own reader (same cursor index as a table
        # that interrupted a paragraph in A)
        Bs += [['- # h', '  | c | d |', '  |---|---|', '  | 3 | 4 |'], ['- foo', '  | c | d |', '  |---|---|'], ['1. ***', '', '   | c | d |', '   |---|---|'],
               ['> # h', '> | c | d |', '> |---|---|'], ['- | c | d |', '  |---|---|', '  | 3 | 4 |']]
        Xs = [[alpha[i]]] if j == 0 else []
        Xs += [[alpha[i], alpha[j]]] + [[alpha[i], alpha[j], x] for x in alpha]
        for X in Xs:
            if not X[0].strip() and len(X) > 1:
                continue
            A = X + ['', 'foo']
            for B in Bs:
                judge(r, A, B)
        r.sample(dict(space='F2', A=[alpha[i], alpha[j], '', 'foo'], B=['- a', '  b']), 1)
        return r
    first, ka, kb, sub_j, sub_n = job
    idx = 0
    Bs = []
    for B in texts(kb):
        try:
            Bs.append((B, ast_of('\n'.join(B) + '\n')))
        except Exception:
            pass
    for n in range(1, ka + 1):
        for rest in itertools.product(L, repeat=n - 1):
            A = [L[first]] + list(rest)
            idx += 1
            if idx % sub_n != sub_j:
                continue
            if A[-1].strip() == '':
                continue
            try:
                a = ast_of('\n'.join(A) + '\n')
            except Exception:
                r.skip('A alone raises (C01)')
                continue
            if side_ok(A, a) or not a['children'] or a['children'][-1]['type'] not in CLOSED:
                r.skip('A: side condition not met', len(Bs))
                continue
            for B, b in Bs:
                res = check_pair(A, B, a, b)
                if isinstance(res, tuple):
                    r.skip('B: ' + res[1])
                    continue
                r.states += 1
                r.transitions += 1
                r.validated += 1
                if res:
                    r.fail(dict(A=A, B=B), res['sig'], res.get('detail', ''), expected=res.get('expected'), observed=res.get('observed'))
                r.outcome('A-ends-in:' + a['children'][-1]['type'])
    r.sample(dict(A=[L[first]], B=[L[1]]), 1)
    return r


def judge(r, A, B, token_set=None):
    res = check_pair(A, B)
    if isinstance(res, tuple):
        r.skip(res[1])
        return
    r.states += 1
    r.transitions += 1
    r.validated += 1
    if res:
        case = dict(A=A, B=B)
        if token_set:
            case['token_set'] = token_set
        r.fail(case, res['sig'], res.get('detail', ''), expected=res.get('expected'), observed=res.get('observed'))
    r.outcome('spec-pair')


def replay(case):
    TOKEN_SET[0] = case.get('token_set', 'Html')
    res = check_pair(case['A'], case['B'])
    if res is None or isinstance(res, tuple):
        return None
    return res
