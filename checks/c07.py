"""C07 - link reference definitions: position independent, first wins, case-folded (E2 placements + reference model)."""
import re
import html
import itertools
from mc import core, trees

ID = 'C07'
TECHNIQUE = ('exhaustive enumeration of skeleton document trees (<= 2/3 blocks over paragraph/heading/quote/bullet/ordered '
             'list) x every placement of 1-2/3 definitions at every block boundary of every nesting level (with and '
             'without blank line before the next block) x a label lattice with forced collisions x use forms x title and '
             'destination styles; href/src/title of every link and image, the literal text of unresolved uses, the absence '
             'of definition text and Document.footnotes are compared with a reference model')
ASSUMPTIONS = ['reference model: definitions in document order of their first line; key = label stripped, inner runs of '
               '[ \\t\\r\\n]+ collapsed to one space, Unicode case-folded; first definition of a key wins']

DEF_LABELS_SMALL = ['foo', 'FOO', 'Foo', 'fooo']
# 'f\\_o': a label with a backslash escape (labels are matched on their source text, the backslash is part of the key)
DEF_LABELS = ['foo', 'Foo', 'FOO', 'f oo', 'f  oo', 'f\noo', 'ẞ', 'SS', 'ss', 'Ǆ', 'ǆ', 'fooo', 'f\\_o', 'stra\xdfe', '\u03bf\u03c2', '\ufb01x']
USE_LABELS = ['foo', 'FOO', 'f oo', 'F  OO', 'ss', 'ẞ', 'ǆ', 'fooo', 'bar', 'F\\_O', 'STRASSE', '\u039f\u03a3', 'FIX']
TITLE_STYLES = ['"', "'", '(', None, 'nextline']
BOUNDS = {'quick': dict(blocks=3, defs=2, lattice_defs=2), 'thorough': dict(blocks=4, defs=3, lattice_defs=3)}

MENU = [
    ('use', lambda w: trees.N('para', lines=[w], use=True)),
    ('plain', lambda w: trees.N('para', lines=[w])),
    ('atx', lambda w: trees.N('atx', level=2, text=w, use=True)),
    ('setext', lambda w: trees.N('setext', level=1, lines=[w], use=True)),
]
CONTS = ['quote', 'ul', 'ol', 'ul2']


def describe(tier):
    b = BOUNDS[tier]
    return dict(skeleton_blocks=b['blocks'], definitions_placed=b['defs'], skeleton_menu=[m[0] for m in MENU] + CONTS,
                placement_labels=DEF_LABELS_SMALL, lattice_def_labels=[ascii(x) for x in DEF_LABELS], use_labels=[ascii(x) for x in USE_LABELS],
                title_styles=TITLE_STYLES, destination_styles=['plain', '<with space>'], lattice_definitions=b['lattice_defs'])


def norm(label):
    return re.sub(r'[ \t\r\n]+', ' ', label.strip(' \t\r\n')).casefold()


# the last form: an image whose description holds a bracketed group around a reference link (the description is flattened
# to alt text, so only the image shows)
# ... and a shortcut reference directly followed by a parenthesis that is never closed (not an inline link: the reference form applies)
USE_TEXT = 'a [{l}] b [{l}][] c [t][{l}] d ![{l}] e ![i][{l}] f [{l}][zz] g ![x [[{l}]] y][{l}] h [{l}]('


def use_text(labels):
    return ' '.join('%s%d %s' % ('u', i, USE_TEXT.format(l=l)) for i, l in enumerate(labels))


def model_uses(labels, table):
    """expected (kind, dest, title) / None per use, in output order"""
    out = []
    for l in labels:
        hit = table.get(norm(l))
        for kind in ('a', 'a', 'a', 'img', 'img'):
            out.append((kind,) + hit if hit else None)
        out.append(None)        # [l][zz]: full reference to an undefined label stays literal even if l itself is defined
        out.append(('img',) + hit if hit else None)
        out.append(('a',) + hit if hit else None)
    return out


def skeletons(nblocks):
    for n in range(1, nblocks + 1):
        for f in trees.forests(n, 2, len(MENU), CONTS, empty=False):
            ctr = [0]
            blocks = [trees.build(s, ctr, MENU) for s in f]
            uses = [b for b, p in trees.walk(blocks) if getattr(b, 'use', False)]
            if 1 <= len(uses) <= 2:
                yield blocks


def sibling_lists(blocks):
    """every list object in the tree into which a definition can be inserted"""
    yield blocks
    for b in blocks:
        if b.kind == 'quote':
            yield from sibling_lists(b.children)
        elif b.kind == 'list':
            for it in b.items:
                yield from sibling_lists(it)


def positions(blocks):
    res = []
    for li, sl in enumerate(sibling_lists(blocks)):
        for pos in range(len(sl) + 1):
            res.append((li, pos))
    return res


def place(blocks, placements):
    """placements: [(list index, position, linkdef node)] -> inserts (later positions first so indexes stay valid);
    definitions placed at the same boundary keep their order"""
    lists = list(sibling_lists(blocks))
    order = sorted(range(len(placements)), key=lambda i: (placements[i][0], placements[i][1], i), reverse=True)
    for i in order:
        li, pos, node = placements[i]
        lists[li].insert(pos, node)


def document_order(blocks):
    return [b for b, p in trees.walk(blocks) if b.kind == 'linkdef']


def set_use_texts(blocks, labels):
    for b, p in trees.walk(blocks):
        if getattr(b, 'use', False):
            if b.kind in ('para', 'setext'):
                b.lines = [use_text(labels)]
            else:
                b.text = use_text(labels)


TAG = re.compile(r'<(a|img)\b([^>]*)>')
UNESC = re.compile(r'\\([!-/:-@\[-`{-~])')


def observe(out):
    res = []
    for m in TAG.finditer(out):
        attrs = dict(re.findall(r'([a-z]+)="([^"]*)"', m.group(2)))
        dest = html.unescape(attrs.get('href' if m.group(1) == 'a' else 'src', ''))
        res.append((m.group(1), dest, html.unescape(attrs.get('title', ''))))
    return res


def evaluate(md, use_labels, nuse_blocks, defs):
    """defs: [(label, dest_as_rendered, title)] in document order"""
    from mistletoe import Document
    from mistletoe.html_renderer import HtmlRenderer
    core.fresh()
    table = {}
    for label, dest, title in defs:
        table.setdefault(norm(label), (dest, title))
    want = [x for x in model_uses(use_labels, table) * nuse_blocks]
    try:
        with core.time_limit(10):
            with HtmlRenderer() as r:
                doc = Document(md)
                out = r.render(doc)
                foot = dict(doc.footnotes)
    except core.EvalTimeout:
        return dict(sig='timeout')
    except Exception as e:
        return dict(sig=core.exc_sig(e), detail=repr(e)[:200])
    got = observe(out)
    want_resolved = [w for w in want if w]
    if got != want_resolved:
        return dict(sig='links-resolve-differently', expected=want_resolved, observed=got)
    text = re.sub(r'<[^>]*>', '', out)
    # unresolved uses stay literal
    for l in use_labels:
        if norm(l) not in table:
            lit = html.escape(UNESC.sub(r'\1', USE_TEXT.format(l=l)), quote=False)
            if text.count(lit) != nuse_blocks:
                return dict(sig='unresolved-use-not-literal', expected=lit, observed=out)
    if ']:' in text or '/d' in text or re.search(r'T\d', text):
        return dict(sig='definition-text-in-output', observed=out)
    for l in use_labels:
        lit = html.escape(UNESC.sub(r'\1', 'f [%s][zz] g' % l), quote=False)
        if text.count(lit) < nuse_blocks:
            return dict(sig='full-reference-to-undefined-label-not-literal', expected=lit, observed=out)
    want_foot = {k: (html.unescape(d).replace('%20', ' '), t) for k, (d, t) in table.items()}
    if {k: (v[0], v[1]) for k, v in foot.items()} != want_foot:
        return dict(sig='footnotes-table-differs', expected=want_foot, observed=foot)
    return None


def mkdef(i, label, style='"', angle=False, glue=False):
    dest = '/d %d' % i if angle else '/d%d' % i
    return trees.N('linkdef', label=label, dest=dest, title='T%d' % i if style else '', title_style=style, angle=angle, glue_next=glue)


def rendered_dest(d):
    return d.dest.replace(' ', '%20')


def jobs(tier):
    b = BOUNDS[tier]
    js = []
    nsk = sum(1 for _ in skeletons(b['blocks']))
    for s in range(nsk):
        js.append(('place', s, b['blocks'], b['defs']))
    for i in range(len(DEF_LABELS)):
        js.append(('lattice', i, b['lattice_defs']))
    js.append(('long',))
    return js


def run_case(r, blocks, use_labels, case_extra):
    md, rec = trees.to_markdown(blocks, trees.DEFAULTS)
    defs = [(d.label, rendered_dest(d), d.title) for d in document_order(blocks)]
    nuse = sum(1 for b, p in trees.walk(blocks) if getattr(b, 'use', False))
    r.transitions += 1
    r.validated += 1
    f = evaluate(md, use_labels, nuse, defs)
    if f:
        r.fail(dict(markdown=md, use_labels=use_labels, use_blocks=nuse, defs=defs), f['sig'], f.get('detail', ''),
               expected=f.get('expected'), observed=f.get('observed'))
    return md


def run_long(r):
    """labels of up to 999 characters (the longest the specification admits), colliding after whitespace collapsing with a short
    label defined later; titles that end in an escaped backslash in all three quoting styles"""
    for n in (1, 2, 99, 100, 255, 256, 997, 998, 999):
        for long_label, short in (('l' * n, None), (('a' + ' ' * (n - 2) + 'b') if n >= 3 else None, 'A B')):
            if long_label is None:
                continue
            for where in ('before', 'after'):
                uses = [long_label] + ([short] if short else [])
                use = use_text(uses)
                d1 = '[%s]: /d1 "T1"' % long_label
                d2 = '[%s]: /d2 "T2"' % short if short else None
                defs_md = d1 + ('\n\n' + d2 if d2 else '')
                md = (defs_md + '\n\n' + use + '\n') if where == 'before' else (use + '\n\n' + defs_md + '\n')
                defs = [(long_label, '/d1', 'T1')] + ([(short, '/d2', 'T2')] if short else [])
                r.states += 1
                r.transitions += 1
                r.validated += 1
                f = evaluate(md, uses, 1, defs)
                if f:
                    r.fail(dict(markdown=md, use_labels=uses, use_blocks=1, defs=defs), f['sig'], f.get('detail', ''), expected=f.get('expected'), observed=f.get('observed'))
                r.outcome('long-label')
    for q1, q2 in (('"', '"'), ("'", "'"), ('(', ')')):
        for title_src, title in (('T\\\\', 'T\\'), ('C:\\\\t\\\\', 'C:\\t\\'), ('a\\' + q2 + 'b', 'a' + q2 + 'b'), ('\\\\', '\\'), ('x\\\\\\' + q2, 'x\\' + q2)):
            for sep in (' ', '\n  '):
                for dup in (False, True):
                    md = '[foo]: /d1%s%s%s%s\n' % (sep, q1, title_src, q2) + ('\n[FOO]: /d2 "T2"\n' if dup else '') + '\n' + use_text(['foo']) + '\n'
                    defs = [('foo', '/d1', title)] + ([('FOO', '/d2', 'T2')] if dup else [])
                    r.states += 1
                    r.transitions += 1
                    r.validated += 1
                    f = evaluate(md, ['foo'], 1, defs)
                    if f:
                        r.fail(dict(markdown=md, use_labels=['foo'], use_blocks=1, defs=defs), f['sig'], f.get('detail', ''), expected=f.get('expected'), observed=f.get('observed'))
                    r.outcome('title-backslash')
    r.sample(dict(space='long labels and titles ending in an escaped backslash'), 1)
    return r


def run_job(job):
    r = core.Result()
    if job[0] == 'long':
        return run_long(r)
    if job[0] == 'place':
        _, si, nblocks, ndefs = job
        use_labels = ['foo', 'bar']
        import copy
        base = next(itertools.islice(skeletons(nblocks), si, None))
        for k in range(1, ndefs + 1):
            npos = len(positions(base))
            for pos in itertools.combinations_with_replacement(range(npos), k):
                for labels in itertools.product(DEF_LABELS_SMALL, repeat=k):
                    for glue in (False, True):
                        blocks = copy.deepcopy(base)
                        set_use_texts(blocks, use_labels)
                        P = positions(blocks)
                        place(blocks, [(P[p][0], P[p][1], mkdef(i + 1, labels[i], glue=glue)) for i, p in enumerate(pos)])
                        r.states += 1
                        md = run_case(r, blocks, use_labels, None)
                        r.outcome('defs=%d' % k)
        r.sample(dict(markdown=md), 1)
    else:
        _, first, ndefs = job
        for k in range(1, ndefs + 1):
            for rest in itertools.product(range(len(DEF_LABELS)), repeat=k - 1):
                idx = (first,) + rest
                if k == 3 and len(set(norm(DEF_LABELS[i]) for i in idx)) == 3:
                    continue          # three unrelated labels add nothing over pairs
                for variant in range(len(TITLE_STYLES) * 2 if k <= 2 else 2):
                    style = TITLE_STYLES[variant % len(TITLE_STYLES)]
                    angle = variant >= len(TITLE_STYLES) or (k > 2 and variant == 1)
                    for layout in range(4):
                        ds = [mkdef(i + 1, DEF_LABELS[j], style=style, angle=angle) for i, j in enumerate(idx)]
                        use = trees.N('para', lines=[use_text(USE_LABELS)], use=True)
                        if layout == 0:      # definitions first, glued run of lines, then the uses
                            for d in ds:
                                d.glue_next = True
                            blocks = ds + [use]
                        elif layout == 1:    # uses first, first definition inside a quote, the rest after
                            blocks = [use, trees.N('quote', children=[ds[0]])] + ds[1:]
                        elif layout == 2:    # definitions inside a list item and at the end
                            blocks = [trees.N('list', ordered=False, start=None, items=[[ds[0]]]), use] + ds[1:]
                        else:
                            # the first definition inside a quote, its title on a LAZY continuation line (no '>'); needs a title
                            if not style or style == 'nextline':
                                continue
                            d = ds[0]
                            t = {'"': '"%s"', "'": "'%s'", '(': '(%s)'}[style] % d.title
                            dest = '<%s>' % d.dest if angle else d.dest
                            md = use_text(USE_LABELS) + '\n\n> [%s]: %s\n%s\n' % (d.label.replace('\n', '\n> '), dest, t)
                            rest_blocks = ds[1:]
                            if rest_blocks:
                                md += '\n' + trees.to_markdown(rest_blocks, trees.DEFAULTS)[0]
                            defs = [(x.label, rendered_dest(x), x.title) for x in ds]
                            r.states += 1
                            r.transitions += 1
                            r.validated += 1
                            f = evaluate(md, USE_LABELS, 1, defs)
                            if f:
                                r.fail(dict(markdown=md, use_labels=USE_LABELS, use_blocks=1, defs=defs), f['sig'], f.get('detail', ''),
                                       expected=f.get('expected'), observed=f.get('observed'))
                            r.outcome('lattice-lazy-title')
                            continue
                        r.states += 1
                        run_case(r, blocks, USE_LABELS, None)
                        r.outcome('lattice-defs=%d' % k)
        r.sample(dict(def_label=ascii(DEF_LABELS[first])), 1)
    return r


def replay(case):
    defs = [tuple(d) for d in case['defs']]
    return evaluate(case['markdown'], case['use_labels'], case['use_blocks'], defs)
