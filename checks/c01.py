"""C01 - parsing and rendering are total and terminate (E1: words, lines, edit-1 neighbourhoods, pumping)."""
import io
import string
from mc import core, configs, spaces, trees, inlines, leafspell, inlinespell

ID = 'C01'
TECHNIQUE = ('exhaustive enumeration of all words over 8 cluster alphabets and a 34-line alphabet up to a length bound, '
             'of the complete edit-distance-1 neighbourhood of the 652 spec examples and of the pumping family u.w^n.v, '
             'each input x every renderer configuration, executed on the real library under a 10 s timer')
ASSUMPTIONS = ['render-time options (escape flags, max_line_length, normalize_whitespace, omit_title, '
               'fail_on_unsupported_language) are assigned as attributes on one renderer instance per parse; '
               'a replay constructs the renderer with the real keyword arguments',
               'RecursionError is admissible only if the input holds more than 100 ASCII punctuation/digit characters '
               '(every nesting construct costs at least one per level)']

# strings with a meaning for str.format / % / templates / escapes, placed in every pair of syntactic roles
ROLE_STRINGS = ['{', '}', '{0}', '{}', '%s', '%', '{inner}', '{target}', '\\', '$', '"', "'", '<', '&', ']', ')', '`', '|']
PUNCT_DIGIT = set(string.punctuation + string.digits)

# configurations for the 'list of lines without line ends' form: the two token sets (with and without HtmlBlock)
NONL_GROUPS = [configs.GROUPS_CORE[0], configs.GROUPS_CORE[4]]

TIERS = {
    'quick': dict(words=dict(emph=8, block=4, link=4, html=4, misc=4, code=5, uni=4, wiki=4, ent=4), lines=3,
                  edit=('small', 60), pump=(1, 300), forms_lines=2, deep='core'),
    'thorough': dict(words=dict(emph=10, block=6, link=6, html=6, misc=5, code=7, uni=5, wiki=6, ent=5), lines=4,
                     edit=('large', 400), pump=(2, 1000), forms_lines=3, deep='core'),
}
# words up to this length are run under the full 26-configuration set, longer ones under GROUPS_CORE (9 configurations:
# every renderer class with its own parse path or render overrides)
FULL_DEPTH = {'quick': dict(emph=6, block=3, link=3, html=3, misc=3, code=4, uni=3, wiki=3, ent=4),
              'thorough': dict(emph=8, block=4, link=4, html=4, misc=4, code=5, uni=4, wiki=4, ent=4)}


def describe(tier):
    t = TIERS[tier]
    return dict(word_depth=t['words'], full_config_depth=FULL_DEPTH[tier], alphabets=spaces.ALPHABETS,
                line_alphabet=spaces.LINES + spaces.LINES_C01_EXTRA, max_lines=t['lines'],
                edit1=dict(tokens=t['edit'][0], max_example_length=t['edit'][1]),
                generated_trees=dict(max_nodes=3 if tier == 'quick' else 4, spelling='canonical'), inline_menu='every container around 1-2 leaves in 5 block contexts', role_strings=ROLE_STRINGS,
                pump=dict(max_w_tokens=t['pump'][0], repetitions=[32, 100, 'len~%d chars' % (t['pump'][1] * 4)]),
                configurations=configs.n_configs(configs.GROUPS), core_configurations=configs.n_configs(configs.GROUPS_CORE),
                timeout_s=10)


def jobs(tier):
    t = TIERS[tier]
    js = []
    for name, k in t['words'].items():
        alpha = spaces.ALPHABETS[name]
        split = 2 if len(alpha) ** 2 <= 200 else 1
        for j in core.word_jobs(name, alpha, k, split):
            js.append(('words', name, j[1], j[2], FULL_DEPTH[tier][name]))
    nl = len(spaces.LINES + spaces.LINES_C01_EXTRA)
    js.append(('lines', None, 1, t['forms_lines']))
    for i in range(nl):
        js.append(('lines', i, t['lines'], t['forms_lines']))
    for lo in range(0, 652, 8):
        js.append(('edit', lo, lo + 8, t['edit'][0], t['edit'][1]))
    for ui in range(len(spaces.PUMP_U)):
        js.append(('pump', ui, t['pump'][0], t['pump'][1]))
    nt = 3 if tier == 'quick' else 4
    for n in range(1, nt + 1):
        ns = 1 if n < 3 else (16 if n == 3 else 128)
        for sh in range(ns):
            js.append(('trees', n, 2 if tier == 'quick' else 3, sh, ns))
    for ci in range(len(inlines.CONTAINERS)):
        js.append(('inlines', ci))
    for i in range(len(ROLE_STRINGS)):
        js.append(('roles', i))
    js += leafspell.jobs()
    js += inlinespell.jobs()
    for a in range(len(STAIR_LINES)):
        js.append(('stairs', a, (8, 16, 24) if tier == 'quick' else (8, 16, 24, 32, 48)))
    return js


# staircases: level i contributes the two lines (a, b) indented by 2*i / 3*i / 4*i columns - nested containers whose next sibling is of
# the same or of another kind on every level (work that doubles per level shows as a timeout at 24 levels)
STAIR_LINES = ['- x', '+ y', '* w', '1. z', '2) z', '> q', '', 'p', '# h', '```', '<div>', '| a |']


def stair_documents(a, depths):
    for b in range(len(STAIR_LINES)):
        for step in (2, 3, 4):
            for n in depths:
                for order in ('down', 'down-up'):
                    la, lb = STAIR_LINES[a], STAIR_LINES[b]
                    if order == 'down':
                        ls = [x for i in range(n) for x in (' ' * (step * i) + la, ' ' * (step * i) + lb if lb else '')]
                    else:
                        ls = [' ' * (step * i) + la for i in range(n)] + [' ' * (step * i) + lb if lb else '' for i in reversed(range(n))]
                    yield '\n'.join(ls) + '\n'


def n_punct(text):
    return sum(1 for c in text if c in PUNCT_DIGIT)


def admissible(name, opts, exc, text):
    if isinstance(exc, RecursionError):
        return 'recursion-limit' if n_punct(text) > 100 else None
    if name == 'LaTeX' and type(exc) is RuntimeError and str(exc) == 'Unable to find delimiter for verb macro':
        return 'latex-no-verb-delimiter'
    if name == 'Pygments' and opts.get('fail_on_unsupported_language') and type(exc).__name__ == 'ClassNotFound':
        return 'pygments-unknown-language'
    return None


def supply(text, form):
    if form == 'str':
        return text
    if form == 'list':
        parts = text.split('\n')
        if parts and parts[-1] == '':
            parts.pop()
        return [p + '\n' for p in parts]
    if form == 'list-nonl':
        # a list of lines WITHOUT line ends (text.split('\n')), which Document accepts and completes
        parts = text.split('\n')
        if parts and parts[-1] == '':
            parts.pop()
        return parts
    if form == 'file':
        return io.StringIO(text)
    raise KeyError(form)


def run_text(r, text, groups, form='str', space=''):
    """parse once per group, render once per option set; record failures on r"""
    from mistletoe import Document
    if r.extra.get('timeouts', 0) >= 6:
        raise _TooManyTimeouts()
    r.states += 1
    for name, ckw, optlist in groups:
        core.fresh()
        R = configs.renderer_class(name)
        rend = None
        try:
            with core.time_limit(10):
                rend = R(**ckw, **optlist[0])
                rend.__enter__()
                doc = Document(supply(text, form))
        except core.EvalTimeout:
            r.transitions += len(optlist)
            r.fail(dict(text=text, renderer=name, ctor=ckw, opts=optlist[0], form=form), 'timeout:parse:' + name, '> 10 s')
            _exit(rend)
            r.extra['timeouts'] = r.extra.get('timeouts', 0) + 1
            return          # one timeout per input is enough; the other configurations parse the same text
        except BaseException as e:
            if isinstance(e, (KeyboardInterrupt, SystemExit)):
                raise
            r.transitions += len(optlist)
            adm = admissible(name, optlist[0], e, text)
            if adm:
                r.outcome(adm)
            else:
                r.fail(dict(text=text, renderer=name, ctor=ckw, opts=optlist[0], form=form), core.exc_sig(e), repr(e)[:300])
            _exit(rend)
            continue
        for opts in optlist:
            r.transitions += 1
            r.validated += 1
            for k, v in opts.items():
                setattr(rend, k, v)
            try:
                with core.time_limit(10):
                    out = rend.render(doc)
                if not isinstance(out, str):
                    r.fail(dict(text=text, renderer=name, ctor=ckw, opts=opts, form=form), 'not-a-string:' + name, type(out).__name__)
                else:
                    r.outcome('ok:' + name)
            except core.EvalTimeout:
                r.fail(dict(text=text, renderer=name, ctor=ckw, opts=opts, form=form), 'timeout:render:' + name, '> 10 s')
            except BaseException as e:
                if isinstance(e, (KeyboardInterrupt, SystemExit)):
                    raise
                adm = admissible(name, opts, e, text)
                if adm:
                    r.outcome(adm)
                else:
                    r.fail(dict(text=text, renderer=name, ctor=ckw, opts=opts, form=form), core.exc_sig(e), repr(e)[:300])
        _exit(rend)


def _exit(rend):
    if rend is not None:
        try:
            rend.__exit__(None, None, None)
        except Exception:
            pass


class _TooManyTimeouts(Exception):
    pass


def run_job(job):
    r = core.Result()
    try:
        _run_job(r, job)
    except _TooManyTimeouts:
        r.capped = 'job %r stopped after 6 inputs that ran into the 10 s timer' % (job[:3],)
    return r


def _run_job(r, job):
    kind = job[0]
    if kind == 'words':
        _, name, prefix, k, full = job
        alpha = spaces.ALPHABETS[name]
        for w in core.words_of_job(alpha, prefix, k):
            text = ''.join(w)
            run_text(r, text, configs.GROUPS if len(w) <= full else configs.GROUPS_CORE, space=name)
            if '\n' in text[:-1]:
                run_text(r, text, NONL_GROUPS, form='list-nonl', space=name)
        r.sample(dict(space=name, text=''.join(alpha[i] for i in (prefix or ())) + alpha[-1]), 1)
    elif kind == 'lines':
        _, first, k, forms_k = job
        L = spaces.LINES + spaces.LINES_C01_EXTRA
        import itertools
        if first is None:
            run_text(r, '', configs.GROUPS, space='lines')
            for form in ('list', 'file'):
                run_text(r, '', configs.GROUPS, form=form, space='lines')
            return
        for n in range(1, k + 1):
            for rest in itertools.product(L, repeat=n - 1):
                ws = (L[first],) + rest
                for text in (spaces.lines_text(ws), '\n'.join(ws)):
                    run_text(r, text, configs.GROUPS if n <= 2 else configs.GROUPS_CORE, space='lines')
                    if n <= forms_k:
                        for form in ('list', 'file'):
                            run_text(r, text, configs.GROUPS_CORE[:3], form=form, space='lines')
                    if n > 1:
                        run_text(r, text, NONL_GROUPS if n > 2 else configs.GROUPS_CORE[:3], form='list-nonl', space='lines')
        r.sample(dict(space='lines', text=spaces.lines_text((L[first], L[1]))), 1)
    elif kind == 'edit':
        _, lo, hi, tokname, maxlen = job
        from checks import c02
        toks = spaces.EDIT_SMALL if tokname == 'small' else spaces.EDIT_LARGE
        for ex in c02.corpus()[lo:hi]:
            md = ex['markdown']
            if len(md) > maxlen:
                r.skip('spec example longer than %d characters' % maxlen)
                continue
            seen = set()
            for text in spaces.edit1(md, toks):
                if text in seen:
                    continue
                seen.add(text)
                run_text(r, text, configs.GROUPS_CORE, space='edit1')
            r.sample(dict(space='edit1', example=ex['example'], variants=len(seen)), 1)
    elif kind == 'trees':
        _, n, depth, sh, ns = job
        for i, blocks in enumerate(trees.all_docs(n, depth)):
            if i % ns != sh:
                continue
            md, rec = trees.to_markdown(blocks, trees.DEFAULTS)
            run_text(r, md, configs.GROUPS if n <= 3 else configs.GROUPS_CORE, space='trees')
        r.sample(dict(space='trees', nodes=n), 1)
    elif kind == 'roles':
        for key, text in spaces.role_documents([ROLE_STRINGS[job[1]]]):
            run_text(r, text, configs.GROUPS_CORE, space='roles')
        for (na, a) in spaces.ROLE_CONTEXTS:
            run_text(r, a.replace('{c}', ROLE_STRINGS[job[1]]) + '\n', configs.GROUPS, space='roles')
        r.sample(dict(space='roles', string=ROLE_STRINGS[job[1]]), 1)
    elif kind == 'inlines':
        for node, key in inlines.enumerate_family('depth1-single', job[1]):
            for cx in range(len(inlines.CONTEXT_NAMES)):
                ctx = inlines.in_context(cx, node)
                if ctx is not None:
                    run_text(r, ctx[0], configs.GROUPS_CORE if cx else configs.GROUPS, space='inlines')
        r.sample(dict(space='inlines', container=inlines.CONTAINERS[job[1]][0]), 1)
    elif kind == 'inlinespell':
        for case in inlinespell.cases_of_job(job):
            for ctx in inlinespell.CONTEXTS:
                x = inlinespell.in_context(case, ctx)
                if x is not None:
                    run_text(r, x[0], configs.GROUPS_CORE, space='inlinespell')
        r.sample(dict(space='inline spellings', family=job[1]), 1)
    elif kind == 'leafspell':
        for case in leafspell.cases_of_job(job):
            for ctx in leafspell.CONTEXTS:
                x = leafspell.in_context(case, ctx)
                if x is not None:
                    run_text(r, x[0], configs.GROUPS_CORE, space='leafspell')
        r.sample(dict(space='leaf spellings', family=job[1]), 1)
    elif kind == 'stairs':
        for text in stair_documents(job[1], job[2]):
            run_text(r, text, configs.GROUPS_CORE, space='stairs')
        r.sample(dict(space='stairs', a=STAIR_LINES[job[1]]), 1)
    elif kind == 'pump':
        _, ui, wlen, big = job
        u = spaces.PUMP_U[ui]
        for w in spaces.pump_words(wlen):
            reps = [32, max(33, big // max(1, len(w)))]
            if len(w) <= 2:
                reps.insert(1, 100)
            for n in reps:
                for v in spaces.PUMP_V:
                    text = u + w * n + v
                    run_text(r, text, configs.GROUPS_CORE if n > 32 else configs.GROUPS, space='pump')
        r.sample(dict(space='pump', u=u, w='> ', n=100, v=''), 1)
    return


def replay(case):
    from mistletoe import Document
    core.fresh()
    name = case['renderer']
    kwargs = dict(case.get('ctor') or {})
    kwargs.update(case.get('opts') or {})
    text = case['text']
    try:
        with core.time_limit(10):
            with configs.renderer_class(name)(**kwargs) as rend:
                out = rend.render(Document(supply(text, case.get('form', 'str'))))
        if not isinstance(out, str):
            return dict(sig='not-a-string:' + name, detail=type(out).__name__)
        return None
    except core.EvalTimeout:
        return dict(sig='timeout:' + name, detail='> 10 s')
    except Exception as e:
        if admissible(name, kwargs, e, text):
            return None
        return dict(sig=core.exc_sig(e), detail=repr(e)[:300])
