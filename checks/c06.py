"""C06 - emphasis nesting equals the CommonMark 0.30 delimiter-run algorithm (E1 + reference model)."""
import sys
import unicodedata
from mc import core
from models import emphasis

ID = 'C06'
TECHNIQUE = ('exhaustive enumeration of all strings over small alphabets up to a length bound and of 37 '
             'templates (7 + a computed cover of 30) for every Unicode code point, each compared with an independent reference model of '
             'the 0.30 delimiter-run algorithm')
ASSUMPTIONS = ['reference model models/emphasis.py is written from the spec text and validated in every run '
               'against the spec examples of the emphasis section that stay inside its input class',
               'texts are wrapped as "# text" so that block syntax cannot interfere; both sides see text.strip()']

A5 = ['a', ' ', '*', '_', '.']
AU = ['a', '1', '.', '“', ' ', '\xa0', '\xa3', '*', '_']
# the first seven were chosen by hand; the others are a greedy cover of all 46 'distinguishing events' found by enumerating every
# template of length <= 6 over {a . space c *|_}: for each delimiter, each side of a run and each neighbour kind, a template on
# which the reference model's output differs between c = letter / punctuation / Unicode white space
TEMPLATES = ['*{c}a*', '*a{c}*', 'a*{c}*a', '_{c}a_', '_a{c}_', 'a_{c}_a', '{c}*a*', '**a*{c}*', '_.__{c}_', '*.{c}*', '*{c}.*', '_.{c}_', '_{c}._', '*. {c}*', '*{c} .*', '_. {c}_', '_{c} ._', '*.*{c}', '{c}*.*', '{c}_._', '_._{c}', '*.*{c}.', '*.*{c}a', '*.{c}*a', '*a{c}*a', '.{c}_._', '_._{c}.', '_._{c}a', 'a{c}_._', '* {c}*.*', '*.*{c} *', '. {c}_._', '_._{c} .', 'a{c}_a_', '_a_{c}a', 'a{c}_a_ b']
# ASCII characters with an inline meaning of their own are outside the model's input class
OWN_MEANING = set('\\`[]<>&!~#*_')
LINE_ENDS = set('\n\r\x0b\x0c\x1c\x1d\x1e\x85\u2028\u2029')

SPACES = {
    'quick': dict(a5=8, bin=14, uni=5, a3=11, sweep='classes'),
    'thorough': dict(a5=10, bin=14, uni=6, a3=13, sweep='all'),
}


def describe(tier):
    b = SPACES[tier]
    return dict(alphabet_a5=A5, len_a5=b['a5'], binary_alphabets=['a*', 'a_'], len_binary=b['bin'],
                unicode_class_alphabet=[ascii(x) for x in AU], len_unicode=b['uni'],
                codepoint_sweep=b['sweep'], templates=TEMPLATES)


def jobs(tier):
    b = SPACES[tier]
    js = []
    js += [('a5',) + j[1:] for j in core.word_jobs('a5', A5, b['a5'], 3)]
    js += [('star',) + j[1:] for j in core.word_jobs('star', ['a', '*'], b['bin'], 4)]
    js += [('under',) + j[1:] for j in core.word_jobs('under', ['a', '_'], b['bin'], 4)]
    js += [('uni',) + j[1:] for j in core.word_jobs('uni', AU, b['uni'], 2)]
    js += [('a3s',) + j[1:] for j in core.word_jobs('a3s', ['a', ' ', '*'], b['a3'], 4)]
    js += [('a3u',) + j[1:] for j in core.word_jobs('a3u', ['a', ' ', '_'], b['a3'], 4)]
    js.append(('depth', None, 0))
    step = 0x110000 // 64
    for lo in range(0, 0x110000, step):
        js.append(('sweep', (lo, min(lo + step, 0x110000)), b['sweep']))
    js.append(('spec', None, 0))
    return js


def render(text):
    from mistletoe import Document, HtmlRenderer
    with HtmlRenderer() as r:
        return r.render(Document('# ' + text))


def evaluate(text):
    """None if implementation agrees with the model, else failure dict"""
    core.fresh()
    want = '<h1>' + emphasis.model(text.strip()) + '</h1>\n'
    try:
        with core.time_limit(10):
            got = render(text)
    except core.EvalTimeout:
        return dict(sig='timeout', detail='> 10 s')
    except Exception as e:
        return dict(sig=core.exc_sig(e), detail=repr(e))
    if got != want:
        return dict(sig='emphasis-structure-differs', expected=want, observed=got)
    return None


def shape(text):
    m = emphasis.model(text.strip())
    return 'em%d/strong%d' % (min(m.count('<em>'), 3), min(m.count('<strong>'), 3))


def classify(text, f):
    return None


def run_words(r, alphabet, prefix, k, label):
    for w in core.words_of_job(alphabet, prefix, k):
        text = ''.join(w)
        if text != text.strip():
            r.skip('leading/trailing whitespace (heading wrapper strips it; the stripped text is enumerated itself)')
            continue
        r.states += 1
        r.transitions += 1
        r.validated += 1
        f = evaluate(text)
        if f:
            r.fail(dict(text=text), f['sig'], f.get('detail', ''), kf=classify(text, f),
                   expected=f.get('expected'), observed=f.get('observed'))
        if r.states % 7 == 0:
            r.outcome(shape(text))
    if prefix is not None:
        r.sample(dict(space=label, text=''.join(alphabet[i] for i in prefix) + alphabet[0] * (k - len(prefix))), 1)


def sweep_points(lo, hi, mode):
    seen_cat = set()
    for cp in range(lo, hi):
        if 0xD800 <= cp <= 0xDFFF:
            continue
        c = chr(cp)
        if c in LINE_ENDS or c in OWN_MEANING:
            continue
        if mode == 'all':
            yield c
            continue
        cat = unicodedata.category(c)
        if cat[0] in 'PZSM' or cat in ('Cc', 'Cf'):
            yield c
        elif (cat, cp >> 12) not in seen_cat:     # one representative of every other category per 4K block
            seen_cat.add((cat, cp >> 12))
            yield c


def run_job(job):
    r = core.Result()
    kind = job[0]
    if kind == 'depth':
        # nesting depth 1..60 (a guard that stops nesting at some level would leave literal delimiters behind)
        for n in range(1, 61):
            for text in ('*' * n + 'a' + '*' * n, '_' * n + 'a' + '_' * n, '*' * (2 * n) + 'a' + '*' * (2 * n),
                         ' '.join('*_'[i % 2] + 'x' for i in range(n)) + ' w ' + ' '.join('x' + '*_'[i % 2] for i in reversed(range(n))),
                         '*' * n + 'a' + '*' * (n + 1), '*' * (n + 1) + 'a' + '*' * n):
                r.states += 1
                r.transitions += 1
                r.validated += 1
                f = evaluate(text)
                if f:
                    r.fail(dict(text=text), f['sig'], f.get('detail', ''), expected=f.get('expected'), observed=f.get('observed'))
        r.outcome('depth')
        r.sample(dict(space='nesting depth 1..60'), 1)
        return r
    if kind in ('a5', 'star', 'under', 'uni', 'a3s', 'a3u'):
        alphabet = {'a5': A5, 'star': ['a', '*'], 'under': ['a', '_'], 'uni': AU, 'a3s': ['a', ' ', '*'], 'a3u': ['a', ' ', '_']}[kind]
        run_words(r, alphabet, job[1], job[2], kind)
    elif kind == 'sweep':
        lo, hi = job[1]
        cats = {}
        for c in sweep_points(lo, hi, job[2]):
            r.states += 1
            cat = unicodedata.category(c)
            cats[cat] = cats.get(cat, 0) + 1
            for t in TEMPLATES:
                text = t.format(c=c)
                r.transitions += 1
                r.validated += 1
                f = evaluate(text)
                if f:
                    r.fail(dict(text=text), f['sig'] + ':U+%04X' % ord(c) if False else f['sig'], f.get('detail', ''),
                           kf=classify(text, f), expected=f.get('expected'), observed=f.get('observed'))
            r.outcome('cat:' + cat)
        r.extra['sweep_categories'] = cats
        r.sample(dict(space='sweep', range='U+%04X..U+%04X' % (lo, hi - 1), templates=TEMPLATES), 1)
    elif kind == 'spec':
        # validate the reference model itself against the spec's emphasis examples inside its input class
        from checks import c02
        n = 0
        for ex in c02.corpus():
            if ex['section'] != 'Emphasis and strong emphasis':
                continue
            md = ex['markdown'].rstrip('\n')
            if '\n' in md or any(ch in md for ch in '\\`[]<>&!~#') or md != md.strip():
                continue
            if md.lstrip().startswith(('* ', '- ', '+ ')) or set(md.replace(' ', '')) <= set('*_-') and len(md.replace(' ', '')) >= 3:
                continue    # block-level reading (list / thematic break), not an inline example
            want = ex['html'].rstrip('\n')
            if not (want.startswith('<p>') and want.endswith('</p>')):
                continue
            got = '<p>' + emphasis.model(md) + '</p>'
            n += 1
            r.validated += 1
            if got != want.replace('&quot;', '"'):
                r.fail(dict(example=ex['example'], text=md), 'reference-model-disagrees-with-spec-example',
                       expected=want, observed=got)
        r.extra['model_validated_on_spec_examples'] = n
        r.states += n
        r.transitions += n
    return r


def finalize(agg, tier):
    n = agg.extra.get('model_validated_on_spec_examples', 0)
    if n < 100:
        raise SystemExit('HARNESS-ERROR C06 reference model validated on only %d spec examples' % n)


def replay(case):
    if 'example' in case:
        return None
    f = evaluate(case['text'])
    if f:
        f['kf'] = classify(case['text'], f)
    return f
