"""C17 - LaTeX output keeps its group/environment structure whatever the text says (E1 + output scanner)."""
from mc import core, spaces, inlinespell, leafspell
from models import scan_latex

ID = 'C17'
TECHNIQUE = ('exhaustive enumeration of all words over four special-character cluster alphabets and of the edit-1 '
             'neighbourhood of the spec corpus over LaTeX specials; every LaTeXRenderer output is read by a structural '
             'scanner (groups, environments, escapes, verbatim regions located through the token tree)')
ASSUMPTIONS = ['LaTeX structure is judged by models/scan_latex.py, not by a TeX engine (none installed)',
               'verbatim regions and raw arguments are located with the parsed token tree (whether the parse is right is not C17\'s business)',
               'URL arguments are read the way hyperref reads them: & _ ~ are harmless there']

ALPH = {
    'text': ['\\', '{', '}', '#', '%', '&', '_', '^', '$', '~', 'a', ' '],
    'link': ['[', ']', '(', ')', '!', '<', '>', 'a', ':', '}', '%', '\\', '`', '\n'],
    'code': ['`', '\n', 'a', ']', '}', '%', '\\', ' ', '\\end{lstlisting}'],
    'table': ['|', '-', '\n', 'a', '&', '\\', '%'],
}
DEPTH = {'quick': dict(text=5, link=5, code=6, table=6), 'thorough': dict(text=7, link=6, code=7, table=8)}
ROLE_STRINGS = ['\\', '{', '}', '#', '%', '&', '_', '^', '$', '~', 'a_b', 'x}', '50%', '{y', '\\z', '$1', 'a&b', '^2', '#3', '~4',
                # the same special twice or three times (a routine that treats the first occurrence differently from the later ones)
                'p#a#b', 'a%b%c', 'x_y_z', '$a$b$', '~a~b', '^a^b', '&a&b', '{a}{b}', '\\a\\b', 'h/p#a#b#c']
EDIT = {'quick': ['\\', '}', '%', '$'], 'thorough': ['\\', '{', '}', '%', '$', '#', '&', '_', '^']}


def describe(tier):
    return dict(alphabets=ALPH, depth=DEPTH[tier], edit1_tokens=EDIT[tier], role_strings=ROLE_STRINGS, roles='every ordered pair of %d syntactic roles' % len(spaces.ROLE_CONTEXTS))


def jobs(tier):
    js = []
    for name, k in DEPTH[tier].items():
        alpha = ALPH[name]
        for j in core.word_jobs(name, alpha, k, 2):
            js.append(('words', name, j[1], j[2]))
    for lo in range(0, 652, 8):
        js.append(('edit', lo, lo + 8, tier))
    for i in range(len(ROLE_STRINGS)):
        js.append(('roles', i))
    js += leafspell.jobs() + inlinespell.jobs()
    step = 0x110000 // 64
    js += [('sweep', lo, min(lo + step, 0x110000), tier) for lo in range(0, 0x110000, step)]
    return js


def evaluate(text):
    from mistletoe import Document
    from mistletoe.latex_renderer import LaTeXRenderer
    core.fresh()
    try:
        with core.time_limit(10):
            with LaTeXRenderer() as rend:
                doc = Document(text)
                out = rend.render(doc)
    except core.EvalTimeout:
        return 'skip', None
    except Exception:
        return 'skip', None          # totality and the documented \verb refusal are C01's business
    why = scan_latex.scan(out, scan_latex.items_from_tree(doc))
    return why, out


def classify(text, why):
    if why.startswith('includegraphics-argument: raw special character'):
        return 'KF-C17-image-source-raw'
    if why.startswith('lstlisting-language-option: raw special character'):
        return 'KF-C17-code-language-raw'
    if why.startswith('lstlisting-body: content closes the environment early'):
        return 'KF-C17-end-lstlisting-in-code'
    return None


def run_text(r, text):
    r.states += 1
    r.transitions += 1
    why, out = evaluate(text)
    if why == 'skip':
        r.skip('parse/render raised or timed out (C01)')
        return
    r.validated += 1
    if why:
        r.fail(dict(text=text), why, kf=classify(text, why), observed=out)
        r.outcome('bad')
    else:
        r.outcome('ok:cmds' if out.count('\\') > 4 else 'ok:plain')


def run_job(job):
    r = core.Result()
    if job[0] == 'words':
        _, name, prefix, k = job
        alpha = ALPH[name]
        for w in core.words_of_job(alpha, prefix, k):
            run_text(r, ''.join(w))
        r.sample(dict(space=name, text=''.join(alpha[i] for i in (prefix or ())) + alpha[0]), 1)
    elif job[0] in ('leafspell', 'inlinespell'):
        mod = leafspell if job[0] == 'leafspell' else inlinespell
        for case in mod.cases_of_job(job):
            for ctx in mod.CONTEXTS:
                x = mod.in_context(case, ctx)
                if x is not None:
                    run_text(r, x[0])
        r.sample(dict(space=job[0], family=job[1]), 1)
    elif job[0] == 'sweep':
        # every Unicode code point as document text (thorough; quick: every code point of the categories P, S, Z, C and every
        # one that a Unicode normalisation form or a case mapping turns into something else - a renderer that folds
        # characters could produce a LaTeX special from them)
        import unicodedata
        _, lo, hi, tier = job
        for cp in range(lo, hi):
            if 0xD800 <= cp <= 0xDFFF:
                continue
            c = chr(cp)
            if c in '\n\r\x0b\x0c\x1c\x1d\x1e\x85\u2028\u2029':
                continue
            if tier == 'quick':
                cat = unicodedata.category(c)
                if not (cat[0] in 'PSZC' and cat != 'Co' and cat != 'Cn' or unicodedata.normalize('NFKC', c) != c or unicodedata.normalize('NFKD', c) != c
                        or c.upper() != c and len(c.upper()) > 1 or c.casefold() != c.lower()):
                    continue
            for t in ('x' + c + 'y\n', '*x ' + c + '*\n'):
                run_text(r, t)
        r.sample(dict(space='code point sweep', range='U+%04X..U+%04X' % (lo, hi - 1), templates=['x{c}y', '*x {c}*']), 1)
    elif job[0] == 'roles':
        for key, text in spaces.role_documents([ROLE_STRINGS[job[1]]]):
            run_text(r, text)
        r.sample(dict(space='roles', string=ROLE_STRINGS[job[1]], roles=[c[0] for c in spaces.ROLE_CONTEXTS]), 1)
    else:
        from checks import c02
        for ex in c02.corpus()[job[1]:job[2]]:
            seen = set()
            for text in spaces.edit1(ex['markdown'], EDIT[job[3]]):
                if text not in seen:
                    seen.add(text)
                    run_text(r, text)
            r.sample(dict(space='edit1', example=ex['example'], variants=len(seen)), 1)
    return r


def replay(case):
    why, out = evaluate(case['text'])
    if why in (None, 'skip'):
        return None
    return dict(sig=why, observed=out, kf=classify(case['text'], why))
