"""C03 - documents built from Markdown constructs parse to the tree they were built from (E2)."""
import itertools
from mc import core, trees, inlines, leafspell, inlinespell
from models.cm_normalize import normalize_html

ID = 'C03'
TECHNIQUE = ('Korat-style exhaustive enumeration of all document trees with <= N block nodes (depth <= D) over a 13-leaf / '
             '4-container menu x all spellings with <= d non-default choices out of 22 spelling options, and of all inline '
             'sequences over a 25-leaf / 8-container inline menu in four block contexts; HtmlRenderer output compared '
             '(CommonMark test normalisation) with HTML serialised directly from the tree')
ASSUMPTIONS = ['the writer only produces constructions whose meaning the spec fixes (mc/trees.py valid(), needs_blank(), '
               'inline side conditions in mc/inlines.py); sibling sequences the spec would merge are not generated',
               'list looseness is computed from the layout actually written']
BOUNDS = {'quick': dict(n=3, depth=2, d=1, n2=2, d2=2, inline=dict(seq=2, nest=1)),
          'thorough': dict(n=4, depth=3, d=1, n2=3, d2=2, inline=dict(seq=3, nest=2))}
NSHARD = 64


def describe(tier):
    b = BOUNDS[tier]
    return dict(max_block_nodes=b['n'], max_depth=b['depth'], nesting_sub_menu='paragraph + 4 containers, 4..%d nodes, depth 3, deviations <= 1' % (5 if tier == 'quick' else 6), deviations=b['d'], deeper_deviations=dict(nodes=b['n2'], d=b['d2']),
                leaves=trees.LEAF_NAMES, containers=trees.CONTAINERS, spelling_options=trees.CHOICES,
                inline=dict(b['inline'], leaves=[l[0] for l in inlines.LEAVES], containers=[c[0] for c in inlines.CONTAINERS],
                            contexts=inlines.CONTEXT_NAMES))


def jobs(tier):
    b = BOUNDS[tier]
    js = []
    for n in range(0, b['n'] + 1):
        for s in range(NSHARD if n >= 3 else 1):
            js.append(('blocks', n, b['depth'], b['d'], s, NSHARD if n >= 3 else 1))
    for n in range(1, b['n2'] + 1):
        for s in range(NSHARD if n >= 2 else 1):
            js.append(('blocks2', n, b['depth'], b['d2'], s, NSHARD if n >= 2 else 1))
    for n in range(4, (5 if tier == 'quick' else 6) + 1):
        for s in range(16):
            js.append(('nesting', n, 3, 1, s, 16))
    js += inlines.jobs(b['inline'])
    js += leafspell.jobs()
    js += inlinespell.jobs()
    return js


def render(md):
    from mistletoe import Document
    from mistletoe.html_renderer import HtmlRenderer
    core.fresh()
    with core.time_limit(10):
        with HtmlRenderer(html_escape_double_quotes=True) as r:
            return r.render(Document(md))


def known_block_defect(blocks, o, got=None):
    """a failure is attributed to a recorded finding only if the tree is in the finding's class AND the observed HTML is
    exactly what the tree would give if that defect (or both) alone were present"""
    sq = trees.has_setext_in_quote(blocks)
    sw = empty_nested_item_then_more(blocks)
    if not (sq or sw) or got is None:
        return None
    g = normalize_html(got)
    for use_sq, use_sw, name in ((sq, False, 'KF-C03-setext-in-quote'), (False, sw, 'KF-C03-blank-after-empty-nested-item'),
                                 (sq, sw, 'KF-C03-setext-in-quote')):
        if not (use_sq or use_sw):
            continue
        try:
            alt = trees.expected_html_under_defects(blocks, o, setext_in_quote=use_sq, swallow_blank=use_sw)
        except Exception:
            continue
        if normalize_html(alt) == g:
            return name
    return None


def empty_nested_item_then_more(blocks):
    """an empty list item nested in an item is followed (after a blank line) by more content of an enclosing list"""
    for b in blocks:
        if b.kind == 'list':
            for j, it in enumerate(b.items):
                for c in it[:-1]:
                    if trees.ends_with_empty_item(c):
                        return True
                if j < len(b.items) - 1 and it and trees.ends_with_empty_item(it[-1]):
                    return True
                if empty_nested_item_then_more(it):
                    return True
        if b.kind == 'quote' and empty_nested_item_then_more(b.children):
            return True
    return False


def later_item_starts_with_table(blocks):
    for b, p in trees.walk(blocks):
        if b.kind == 'list' and any(it and it[0].kind == 'table' for it in b.items[1:]):
            return True
    return False


def check_tree(r, blocks, o):
    try:
        md, rec = trees.to_markdown(blocks, o, strict=True)
    except trees.Unwritable:
        r.skip('a written line reads as a thematic break (nested empty items)')
        return
    want = trees.expected_html(blocks, o)
    r.transitions += 1
    try:
        got = render(md)
    except core.EvalTimeout:
        r.fail(dict(markdown=md, spelling=trees.option_label(o), expected_html=want), 'timeout')
        return
    except Exception as e:
        r.fail(dict(markdown=md, spelling=trees.option_label(o), expected_html=want), core.exc_sig(e), repr(e)[:200])
        return
    r.validated += 1
    if normalize_html(got) != normalize_html(want):
        kf = known_block_defect(blocks, o, got)
        r.fail(dict(markdown=md, spelling=trees.option_label(o), expected_html=want, kf=kf), 'html-differs-from-tree', kf=kf, expected=want, observed=got)


def applicable(blocks, o):
    """does this spelling touch this tree at all? (skip duplicates of the canonical spelling)"""
    kinds = {b.kind for b, p in trees.walk(blocks)}
    lab = trees.option_label(o)
    need = dict(qnospace={'quote'}, qindent={'quote'}, quote_blank_first={'quote'}, pad={'list'}, lindent={'list'},
                item_blank_first={'list'}, bullet={'list'}, bullet2={'list'}, odelim={'list'}, loose_items={'list'},
                fence_len={'fence'}, fence_close_extra={'fence'}, atx_closing={'atx'}, setext_len={'setext'}, hr={'hr'},
                table_pipes={'table'}, lazy={'quote', 'list'})
    for k in lab:
        if k in need and not (need[k] & kinds):
            return False
    if 'blanks' in lab or 'tight_siblings' in lab:
        if all(len(x) < 2 for x in [blocks] + [b.children for b, p in trees.walk(blocks) if b.kind == 'quote']
               + [it for b, p in trees.walk(blocks) if b.kind == 'list' for it in b.items]):
            return False
    return True


def run_job(job):
    r = core.Result()
    kind = job[0]
    if kind in ('blocks', 'blocks2'):
        _, n, depth, d, shard, nshard = job
        sps = list(trees.spellings(d))
        if kind == 'blocks2':
            sps = [o for o in sps if len(trees.option_label(o)) == 2]      # d=1 is covered by the 'blocks' jobs
        for i, blocks in enumerate(trees.all_docs(n, depth)):
            if i % nshard != shard:
                continue
            r.states += 1
            for o in sps:
                if not applicable(blocks, o):
                    r.skip('spelling option does not touch this tree')
                    continue
                check_tree(r, blocks, o)
            r.outcome('top=' + (blocks[0].kind if blocks else 'empty'))
            if i < 3:
                r.sample(dict(markdown=trees.to_markdown(blocks, trees.DEFAULTS)[0]), 1)
    elif kind == 'nesting':
        # deeper nesting over a sub-menu (paragraph + the four containers): list-in-list / quote-in-list looseness and prefixes
        _, n, depth, d, shard, nshard = job
        sps = list(trees.spellings(d))
        i = -1
        for f in trees.forests(n, depth, 1, trees.CONTAINERS, empty=False):
            ctr = [0]
            blocks = [trees.build(s, ctr) for s in f]
            if not trees.valid(blocks):
                continue
            i += 1
            if i % nshard != shard:
                continue
            r.states += 1
            for o in sps:
                if applicable(blocks, o):
                    check_tree(r, blocks, o)
            r.outcome('nesting')
    elif kind == 'inline':
        inlines.run_job(r, job, render, normalize_html)
    elif kind == 'inlinespell':
        for case in inlinespell.cases_of_job(job):
            r.states += 1
            for ctx in inlinespell.CONTEXTS:
                x = inlinespell.in_context(case, ctx)
                if x is None:
                    r.skip('inline spelling not placed in this context (side condition of the writer)')
                    continue
                md, want = x
                r.transitions += 1
                try:
                    got = render(md)
                except core.EvalTimeout:
                    r.fail(dict(markdown=md, expected_html=want), 'timeout')
                    continue
                except Exception as e:
                    r.fail(dict(markdown=md, expected_html=want), core.exc_sig(e), repr(e)[:200])
                    continue
                r.validated += 1
                if normalize_html(got) != normalize_html(want):
                    r.fail(dict(markdown=md, expected_html=want, family=case[0], context=ctx), 'inline-spelling-html-differs:' + case[0],
                           expected=want, observed=got)
            r.outcome('inline-spelling:' + case[0])
        r.sample(dict(space='inline spellings', family=job[1]), 1)
    elif kind == 'leafspell':
        for case in leafspell.cases_of_job(job):
            r.states += 1
            for ctx in leafspell.CONTEXTS:
                x = leafspell.in_context(case, ctx)
                if x is None:
                    r.skip('leaf spelling not placed in this context (side condition of the writer)')
                    continue
                md, want, _ln = x
                r.transitions += 1
                try:
                    got = render(md)
                except core.EvalTimeout:
                    r.fail(dict(markdown=md, expected_html=want), 'timeout')
                    continue
                except Exception as e:
                    r.fail(dict(markdown=md, expected_html=want), core.exc_sig(e), repr(e)[:200])
                    continue
                r.validated += 1
                if normalize_html(got) != normalize_html(want):
                    kf = None
                    if leafspell.delimiter_count_mismatch(case) and '<table>' in got:
                        kf = 'KF-C03-table-delimiter-cell-count'
                    elif leafspell.lazy_line_reinterpreted(case):
                        kf = 'KF-C03-lazy-line-reinterpreted'
                    elif (ctx in ('in-quote-then-text', 'in-list-item-then-text')
                          and normalize_html(got) == normalize_html(render(md[:-len('after\n')] + ('> ' if ctx == 'in-quote-then-text' else '  ') + 'after\n'))):
                        # class: a container whose last block is not a paragraph, directly followed by a line of text without marker;
                        # symptom: the output is exactly that of the same document with the line written inside the container (the leaf
                        # itself is judged without this allowance in the contexts in-quote / in-list-item)
                        kf = 'KF-C03-text-after-non-paragraph-taken-as-lazy'
                    elif (ctx in ('in-list-item', 'in-list-item-then-text') and case[0] == 'indented' and any(l and not l.strip(' ') for l in case[1])
                          and normalize_html(got) == normalize_html(leafspell.in_context(leafspell.blank_lines_emptied(case), ctx)[1])):
                        # class: indented code with a white-space-only line, inside a list item; symptom: exactly the HTML of the same
                        # case with those lines emptied
                        kf = 'KF-C03-whitespace-only-line-in-list-item'
                    r.fail(dict(markdown=md, expected_html=want, family=case[0], context=ctx, kf=kf), 'leaf-spelling-html-differs:' + case[0], kf=kf,
                           expected=want, observed=got)
            r.outcome('leaf:' + case[0])
        r.sample(dict(space='leaf spellings', family=job[1]), 1)
    return r


def replay(case):
    md = case['markdown']
    want = case.get('expected_html')
    if want is None:
        return None
    try:
        got = render(md)
    except Exception as e:
        return dict(sig=core.exc_sig(e), detail=repr(e))
    if normalize_html(got) != normalize_html(want):
        return dict(sig=case.get('sig', 'html-differs-from-tree'), expected=want, observed=got, kf=case.get('kf'))
    return None
