"""C12 - the token tree is well-formed and its generic views are faithful (E1 inputs + invariant checker)."""
import json
import itertools
from mc import core, configs, spaces, trees, inlines, leafspell, inlinespell

ID = 'C12'
TECHNIQUE = ('exhaustive enumeration of texts over the line alphabet, of inline words placed in four block contexts and of '
             'the spec edit-1 neighbourhood x the token sets of the Html, Markdown, LaTeX and XWiki renderers; an invariant '
             'checker walks every Document (parent links, child kinds, attribute ranges) and compares utils.traverse (all '
             'argument combinations) and the AstRenderer JSON with an independent recursive walk')
ASSUMPTIONS = ['child-kind table is taken from the class docstrings of block_token / span_token / markdown_renderer',
               'Table.header is reachable through the header attribute only and is compared through the AST view']

INLINE = ['a', ' ', '*', '_', '`', '[', ']', '(', ')', '<', '>', '!', '\\', '&', ';', '|', '~', '\n']
CONTEXTS = ['{w}\n', '# {w}\n', '| h | x |\n|---|---|\n| {w} | y |\n', '- {w}\n']
BOUNDS = {'quick': dict(lines=3, inline=3, edit=None), 'thorough': dict(lines=4, inline=4, edit=spaces.EDIT_SMALL)}
TOKEN_SETS = ['Html', 'Markdown', 'LaTeX', 'XWiki20']
# '| a | b | c |' / '| 1 |': a header wider than the delimiter row '|---|---|' and a body row narrower than both
L = spaces.LINES + spaces.LINES_C01_EXTRA + ['0. z', '010) t', '  1. n', '| a | b | c |', '| 1 |']

SPAN_SINGLE_RAW = {'InlineCode', 'AutoLink', 'EscapeSequence'}
SPAN_LEAF = {'RawText', 'LineBreak', 'HtmlSpan', 'Math', 'XWikiBlockMacroStart', 'XWikiBlockMacroEnd', 'LinkReferenceDefinition'}
SPAN_CONTAINER = {'Strong', 'Emphasis', 'Strikethrough', 'Link', 'Image', 'GithubWiki'}
BLOCK_OF_SPANS = {'Paragraph', 'Heading', 'SetextHeading', 'TableCell'}
BLOCK_OF_BLOCKS = {'Document', 'Quote', 'ListItem'}
BLOCK_RAW = {'BlockCode', 'CodeFence', 'HtmlBlock'}


def describe(tier):
    b = BOUNDS[tier]
    return dict(line_alphabet=L, max_lines=b['lines'], inline_alphabet=INLINE, inline_len=b['inline'], contexts=CONTEXTS,
                edit1=bool(b['edit']), token_sets=TOKEN_SETS, generated_trees_max_nodes=3 if tier == 'quick' else 4)


def jobs(tier):
    b = BOUNDS[tier]
    js = []
    if tier == 'quick':
        js += [('lines', i, None, b['lines']) for i in range(len(L))]
    else:
        js += [('lines', i, j, b['lines']) for i in range(len(L)) for j in range(len(L))] + [('lines', i, None, 1) for i in range(len(L))]
    for j in core.word_jobs('inline', INLINE, b['inline'], 2 if tier == 'thorough' else 1):
        js.append(('inline', j[1], j[2]))
    if b['edit']:
        js += [('edit', lo, lo + 8) for lo in range(0, 652, 8)]
    nt = 3 if tier == 'quick' else 4
    for n in range(1, nt + 1):
        ns = 1 if n < 3 else (16 if n == 3 else 128)
        js += [('trees', n, 2 if tier == 'quick' else 3, sh, ns) for sh in range(ns)]
    js += [('inlines', ci, tier) for ci in range(len(inlines.CONTAINERS))]
    js += leafspell.jobs()
    js += inlinespell.jobs()
    return js


def check_doc(doc):
    """returns None or (sig, detail)"""
    from mistletoe import block_token, span_token
    from mistletoe.utils import traverse
    from mistletoe.ast_renderer import AstRenderer
    Block, Span = block_token.BlockToken, span_token.SpanToken
    seen = {}
    walk = []        # (node, parent, depth)

    def visit(node, parent, depth):
        if id(node) in seen:
            return ('token-reachable-twice', type(node).__name__)
        seen[id(node)] = node
        name = type(node).__name__
        kids = node.children
        if parent is not None:
            walk.append((node, parent, depth))
            if node.parent is not parent:
                return ('parent-link-wrong', '%s under %s has parent %s' % (name, type(parent).__name__, type(node.parent).__name__))
        is_block = isinstance(node, Block)
        is_span = isinstance(node, Span)
        if is_block == is_span:
            return ('token-neither-block-nor-span', name)
        if kids is None:
            if name not in SPAN_LEAF and name != 'ThematicBreak':
                return ('children-missing', name)
            return None
        kids = list(kids)
        if name in SPAN_LEAF or name == 'ThematicBreak':
            if kids:
                return ('leaf-with-children', name)
        for c in kids:
            cb, cs = isinstance(c, Block), isinstance(c, Span)
            cn = type(c).__name__
            if is_span and cb:
                return ('span-contains-block', '%s contains %s' % (name, cn))
            if name == 'List' and cn != 'ListItem':
                return ('list-child-not-item', cn)
            if name == 'Table' and cn != 'TableRow':
                return ('table-child-not-row', cn)
            if name == 'TableRow' and cn != 'TableCell':
                return ('row-child-not-cell', cn)
            if cn in ('ListItem', 'TableRow', 'TableCell') and name != {'ListItem': 'List', 'TableRow': 'Table', 'TableCell': 'TableRow'}[cn]:
                return ('structural-token-outside-its-container', '%s under %s' % (cn, name))
            if name in BLOCK_OF_SPANS and not cs:
                return ('leaf-block-contains-block', '%s contains %s' % (name, cn))
            if name in BLOCK_OF_BLOCKS and not cb:
                return ('container-block-contains-span', '%s contains %s' % (name, cn))
            if name == 'LinkReferenceDefinitionBlock' and cn != 'LinkReferenceDefinition':
                return ('definition-block-child', cn)
        if name in BLOCK_RAW or name in SPAN_SINGLE_RAW:
            if len(kids) != 1 or type(kids[0]).__name__ != 'RawText':
                return ('raw-holder-children', '%s has %s' % (name, [type(k).__name__ for k in kids]))
        if name == 'Heading' and not (isinstance(node.level, int) and 1 <= node.level <= 6):
            return ('heading-level-out-of-range', repr(node.level))
        if name == 'SetextHeading' and node.level not in (1, 2):
            return ('heading-level-out-of-range', repr(node.level))
        if name == 'List':
            if not kids:
                return ('empty-list', '')
            leader = kids[0].leader
            want = int(leader[:-1]) if leader[:-1].isdigit() else None
            if node.start != want:
                return ('list-start-disagrees-with-first-marker', '%r vs %r' % (node.start, leader))
            if not isinstance(node.loose, bool):
                return ('list-loose-not-bool', repr(node.loose))
        if name == 'Table':
            h = getattr(node, 'header', None)
            if h is not None:
                if type(h).__name__ != 'TableRow':
                    return ('table-header-not-row', type(h).__name__)
                for cell in h.children:
                    if type(cell).__name__ != 'TableCell' or cell.parent is not h:
                        return ('table-header-cell', type(cell).__name__)
                    r = visit_sub(cell, h, depth + 2)
                    if r:
                        return r
        if is_block and name not in ('Document',) and not isinstance(getattr(node, 'line_number', None), int):
            return ('line-number-missing', name)
        for c in kids:
            r = visit(c, node, depth + 1)
            if r:
                return r
        return None

    header_nodes = []

    def visit_sub(cell, row, depth):
        # header cells: same child rules, but not part of the children-walk that traverse() follows
        mark = len(walk)
        r = visit(cell, None, depth)
        header_nodes.extend(walk[mark:])
        del walk[mark:]
        return r

    r = visit(doc, None, 0)
    if r:
        return r
    # utils.traverse against the independent walk
    ref = [(id(n), id(p), d) for n, p, d in walk]
    klasses = [None, Block, Span, span_token.RawText, block_token.Paragraph]
    for klass in klasses:
        for depth in (None, 0, 1, 2, 3, 7):
            for inc in (False, True):
                got = [(id(t.node), id(t.parent) if t.parent is not None else None, t.depth)
                       for t in traverse(doc, klass=klass, depth=depth, include_source=inc)]
                want = [(i, p, d) for (i, p, d), (n, _, _) in zip(ref, walk)
                        if (depth is None or d <= depth) and (klass is None or isinstance(n, klass))]
                if inc and (klass is None or isinstance(doc, klass)):
                    want = [(id(doc), None, 0)] + want
                if len(got) != len(set(got)):
                    return ('traverse-yields-duplicate', 'klass=%s depth=%s' % (getattr(klass, '__name__', None), depth))
                if sorted(got, key=str) != sorted(want, key=str):
                    return ('traverse-differs-from-walk', 'klass=%s depth=%s include_source=%s got %d want %d'
                            % (getattr(klass, '__name__', None), depth, inc, len(got), len(want)))
    # AstRenderer view
    try:
        ast = json.loads(AstRenderer().render(doc))
    except Exception as e:
        return ('ast-renderer-output-not-json', repr(e)[:200])

    def mirror(node, a):
        if not isinstance(a, dict) or a.get('type') != type(node).__name__:
            return ('ast-type-mismatch', '%s vs %r' % (type(node).__name__, a.get('type') if isinstance(a, dict) else a))
        kids = node.children
        if kids is None:
            if 'children' in a:
                return ('ast-children-mismatch', type(node).__name__)
        else:
            kids = list(kids)
            if len(a.get('children', ())) != len(kids) or 'children' not in a:
                return ('ast-children-mismatch', type(node).__name__)
        for attr in node.repr_attributes:
            if attr not in a or a[attr] != json.loads(json.dumps(getattr(node, attr))):
                return ('ast-attribute-mismatch', '%s.%s' % (type(node).__name__, attr))
        if 'content' in vars(node) and a.get('content') != node.content:
            return ('ast-attribute-mismatch', '%s.content' % type(node).__name__)
        if 'header' in vars(node):
            r = mirror(node.header, a.get('header'))
            if r:
                return r
        for k, ak in zip(kids or (), a.get('children', ())):
            r = mirror(k, ak)
            if r:
                return r
        return None
    return mirror(doc, ast)


def evaluate(text, ts):
    from mistletoe import Document
    core.fresh()
    try:
        with core.time_limit(10):
            with configs.renderer_class(ts)():
                doc = Document(text)
                res = check_doc(doc)
    except core.EvalTimeout:
        return 'skip'
    except RecursionError:
        return 'skip'
    except Exception as e:
        import traceback
        tb = traceback.extract_tb(e.__traceback__)
        if any(f.filename.endswith('checks/c12.py') and f.name != 'evaluate' for f in tb) and not any(f.filename.startswith(core.REPO) for f in tb[-1:]):
            return ('checker-raised:' + type(e).__name__, repr(e)[:200])
        return 'skip'
    return res


def run_text(r, text):
    r.states += 1
    for ts in TOKEN_SETS:
        r.transitions += 1
        res = evaluate(text, ts)
        if res == 'skip':
            r.skip('parse raised or timed out (C01)')
            continue
        r.validated += 1
        if res:
            r.fail(dict(text=text, token_set=ts), res[0], res[1])
        r.outcome('ok:' + ts)


def run_job(job):
    r = core.Result()
    kind = job[0]
    if kind == 'lines':
        _, first, second, k = job
        for n in range(1, k + 1):
            if second is not None and n < 2:
                continue
            for rest in itertools.product(L, repeat=n - 1):
                if second is not None and rest[0] != L[second]:
                    continue
                run_text(r, spaces.lines_text((L[first],) + rest))
        r.sample(dict(space='lines', text=spaces.lines_text((L[first], L[4]))), 1)
    elif kind == 'inline':
        _, prefix, k = job
        for w in core.words_of_job(INLINE, prefix, k):
            word = ''.join(w)
            for ctx in CONTEXTS:
                run_text(r, ctx.format(w=word))
        r.sample(dict(space='inline', text=CONTEXTS[2].format(w='*[a](b)*')), 1)
    elif kind == 'trees':
        _, n, depth, sh, ns = job
        for i, blocks in enumerate(trees.all_docs(n, depth)):
            if i % ns == sh:
                run_text(r, trees.to_markdown(blocks, trees.DEFAULTS)[0])
        r.sample(dict(space='generated trees', nodes=n), 1)
    elif kind == 'inlines':
        # nested inline structure: every container of the inline menu around 1-2 leaves (thorough: also depth 2)
        fams = ['depth1-single'] + (['depth2'] if job[2] == 'thorough' else [])
        for fam in fams:
            for node, key in inlines.enumerate_family(fam, job[1]):
                for cx in (0, 3):
                    ctx = inlines.in_context(cx, node)
                    if ctx is not None:
                        run_text(r, ctx[0])
        r.sample(dict(space='inline menu', container=inlines.CONTAINERS[job[1]][0]), 1)
    elif kind == 'inlinespell':
        for case in inlinespell.cases_of_job(job):
            for ctx in inlinespell.CONTEXTS:
                x = inlinespell.in_context(case, ctx)
                if x is not None:
                    run_text(r, x[0])
        r.sample(dict(space='inline spellings', family=job[1]), 1)
    elif kind == 'leafspell':
        for case in leafspell.cases_of_job(job):
            for ctx in leafspell.CONTEXTS:
                x = leafspell.in_context(case, ctx)
                if x is not None:
                    run_text(r, x[0])
        r.sample(dict(space='leaf spellings', family=job[1]), 1)
    elif kind == 'edit':
        from checks import c02
        for ex in c02.corpus()[job[1]:job[2]]:
            seen = set()
            for text in spaces.edit1(ex['markdown'], BOUNDS['thorough']['edit']):
                if text not in seen:
                    seen.add(text)
                    run_text(r, text)
    return r


def replay(case):
    res = evaluate(case['text'], case['token_set'])
    if res in (None, 'skip'):
        return None
    return dict(sig=res[0], detail=res[1])
