"""C09 - Markdown round trip: same meaning, idempotent, exact on normal form (spec corpus + E2 trees + inline menu)."""
from mc import core, trees, inlines, leafspell, inlinespell

ID = 'C09'
TECHNIQUE = ('complete enumeration of the 652 spec examples and exhaustive enumeration of all document trees (<= 3/4 nodes) x '
             'spellings with <= 1 non-default choice and of the inline menu in 5 block contexts, x normalize_whitespace in '
             '{False, True}; MarkdownRenderer output must parse to the same HTML and link definitions, re-render to itself '
             'byte for byte, and equal the input when the input is in the renderer\'s normal form')
ASSUMPTIONS = ['meaning = HtmlRenderer output and Document.footnotes of the implementation itself (metamorphic)',
               'normal form = the writer\'s canonical spelling with tables padded to column width >= 3 and, as the renderer writes them, '
               '"> " for blank lines inside quotes and a space after the marker of an empty list item',
               'generated domain excludes, as the property says, character references, escapes in destinations/titles, '
               'continuation lines indented >= 4 and non-"\\n" separators']
BOUNDS = {'quick': dict(n=3, depth=2, d=1, inline_seq=2), 'thorough': dict(n=4, depth=3, d=1, inline_seq=3)}
NSHARD = 64
# spec examples that are recorded findings: (example, normalize_whitespace, clause)
SPEC_KNOWN_MEANING = {25, 26, 37, 38, 39, 40, 41, 49, 70, 87, 112, 129, 237, 238, 280, 312, 315, 497, 499, 505}
SPEC_KNOWN_MEANING_NW = SPEC_KNOWN_MEANING | {257, 313}
SPEC_KNOWN_IDEM = {25, 40, 280}
SPEC_KNOWN_IDEM_NW = SPEC_KNOWN_IDEM | {257, 313}
EXCLUDED_LEAVES = {'entity-named', 'entity-dec', 'entity-hex'}


def describe(tier):
    b = BOUNDS[tier]
    return dict(spec_examples=652, max_block_nodes=b['n'], max_depth=b['depth'], deviations=b['d'], inline_leaf_sequences=b['inline_seq'],
                normalize_whitespace=[False, True], clauses=['same HTML and link definitions', 'idempotent', 'exact on normal form'])


def jobs(tier):
    b = BOUNDS[tier]
    js = [('spec', lo, lo + 24) for lo in range(0, 652, 24)]
    for n in range(0, b['n'] + 1):
        ns = NSHARD if n >= 3 else 1
        for s in range(ns):
            js.append(('trees', n, b['depth'], b['d'], s, ns))
    for first in range(len(inlines.LEAVES)):
        js.append(('inline', first, b['inline_seq']))
    for ci in range(len(inlines.CONTAINERS)):
        js.append(('inline-c', ci, b['inline_seq']))
    js += leafspell.jobs()
    js += [j for j in inlinespell.jobs() if j[1] != 'charref']
    js.append(('uniblank',))
    return js


def html_of(m):
    from mistletoe import Document
    from mistletoe.html_renderer import HtmlRenderer
    core.fresh()
    with HtmlRenderer() as r:
        doc = Document(m)
        return r.render(doc), dict(doc.footnotes)


def md_of(m, nw):
    from mistletoe import Document
    from mistletoe.markdown_renderer import MarkdownRenderer
    core.fresh()
    with MarkdownRenderer(normalize_whitespace=nw) as r:
        return r.render(Document(m))


def roundtrip(m, nw, exact):
    """list of (clause, expected, observed) that fail; None if the input itself cannot be rendered (C01)"""
    bad = []
    try:
        with core.time_limit(20):
            h1 = html_of(m)
            m2 = md_of(m, nw)
    except (Exception, core.EvalTimeout):
        return None
    try:
        with core.time_limit(20):
            h2 = html_of(m2)
            m3 = md_of(m2, nw)
    except core.EvalTimeout:
        return [('rendered-text-times-out', '', m2)]
    except Exception as e:
        return [('rendered-text-cannot-be-parsed:' + core.exc_sig(e), '', m2)]
    if h2 != h1:
        bad.append(('meaning-changed', h1[0] if h1[0] != h2[0] else repr(h1[1]), h2[0] if h1[0] != h2[0] else repr(h2[1])))
    if m3 != m2:
        bad.append(('not-idempotent', m2, m3))
    if exact and m2 != m:
        bad.append(('normal-form-not-reproduced', m, m2))
    return bad


def has_empty_container(blocks):
    for b, p in trees.walk(blocks):
        if b.kind == 'quote' and not b.children:
            return True
        if b.kind == 'list' and any(not it for it in b.items):
            return True
    return False


def has_empty_item_then_more(blocks):
    """an empty list item that is followed by a blank line and further content in the same document"""
    flat = [b for b, p in trees.walk(blocks)]
    for b, p in trees.walk(blocks):
        if b.kind == 'list':
            for j, it in enumerate(b.items):
                if not it:
                    return True
    return False


EMPTY_MARKER_LINE = __import__('re').compile(r'^((?:> ?|(?:[-+*]|\d{1,9}[.)]) +| )*)(?:[-+*]|\d{1,9}[.)]) ?$')


def without_blank_after_empty_items(m):
    """the input as the recorded defect alone would write it back: blank lines (at the quote nesting of the marker
    line) that directly follow a line holding nothing but list markers are gone"""
    out = []
    blank = None
    parts = m.split('\n')
    for i, line in enumerate(parts):
        if blank is not None and line.replace(' ', '') == blank and i < len(parts) - 1:
            continue
        mm = EMPTY_MARKER_LINE.match(line)
        blank = '>' * mm.group(1).count('>') if mm else None
        out.append(line)
    return '\n'.join(out)


def differs_only_by_blank_after_empty_items(m, out):
    """is `out` the input with some (at least one) of the blank lines that directly follow a marker-only line removed, and
    nothing else changed? (the recorded defect loses such a blank line in most positions, not in all)"""
    a, b = m.split('\n'), out.split('\n')
    cand = set()
    blank = None
    for i, line in enumerate(a):
        if blank is not None and line.replace(' ', '') == blank and i < len(a) - 1:
            cand.add(i)
            continue
        mm = EMPTY_MARKER_LINE.match(line)
        blank = '>' * mm.group(1).count('>') if mm else None
    i = j = removed = 0
    while i < len(a):
        if j < len(b) and a[i] == b[j]:
            i += 1
            j += 1
        elif i in cand:
            i += 1
            removed += 1
        else:
            return False
    return j == len(b) and removed > 0


def classify_tree(blocks, o, clause, md=None, exact=False, nw=False):
    if clause in ('meaning-changed', 'not-idempotent', 'normal-form-not-reproduced') and has_empty_item_then_more(blocks):
        if exact and md is not None:
            # canonical input: attribute only if the rendering differs from the input by nothing but lost blank lines after empty items
            try:
                if not differs_only_by_blank_after_empty_items(md, md_of(md, nw)):
                    return None
            except Exception:
                return None
        return 'KF-C09-blank-line-after-empty-list-item-lost'
    return None


def run_job(job):
    r = core.Result()
    kind = job[0]
    if kind == 'spec':
        from checks import c02
        for ex in c02.corpus()[job[1]:job[2]]:
            r.states += 1
            for nw in (False, True):
                r.transitions += 1
                bad = roundtrip(ex['markdown'], nw, False)
                if bad is None:
                    r.skip('input cannot be rendered (C01)')
                    continue
                r.validated += 1
                for clause, want, got in bad:
                    known = {('meaning-changed', False): SPEC_KNOWN_MEANING, ('meaning-changed', True): SPEC_KNOWN_MEANING_NW,
                             ('not-idempotent', False): SPEC_KNOWN_IDEM, ('not-idempotent', True): SPEC_KNOWN_IDEM_NW}.get((clause, nw), set())
                    kf = 'KF-C09-spec-examples' if ex['example'] in known else None
                    r.fail(dict(example=ex['example'], markdown=ex['markdown'], normalize_whitespace=nw, clause=clause, exact=False),
                           'spec-example-%d:%s:nw=%s' % (ex['example'], clause, nw), kf=kf, expected=want, observed=got)
                r.outcome('spec')
    elif kind == 'trees':
        _, n, depth, d, shard, nshard = job
        from checks import c03
        sps = list(trees.spellings(d))
        for i, blocks in enumerate(trees.all_docs(n, depth)):
            if i % nshard != shard:
                continue
            r.states += 1
            for o in sps:
                if not c03.applicable(blocks, o):
                    continue
                canonical = not trees.option_label(o)
                oo = dict(o, table_pipes='padded', renderer_form=True) if canonical else o
                try:
                    md, rec = trees.to_markdown(blocks, oo, strict=True)
                except trees.Unwritable:
                    r.skip('a written line reads as a thematic break (nested empty items)')
                    continue
                # a definition whose title sits on the next line is not in the renderer's normal form (it joins them)
                exact = canonical and not any(getattr(b, 'title_style', None) == 'nextline' for b, _p in trees.walk(blocks))
                for nw in (False, True):
                    r.transitions += 1
                    bad = roundtrip(md, nw, exact)
                    if bad is None:
                        r.skip('input cannot be rendered (C01)')
                        continue
                    r.validated += 1
                    for clause, want, got in bad:
                        kf = classify_tree(blocks, o, clause, md, exact, nw)
                        r.fail(dict(markdown=md, normalize_whitespace=nw, clause=clause, exact=exact, spelling=trees.option_label(o), kf=kf),
                               clause, kf=kf, expected=want, observed=got)
                    r.outcome('trees:exact' if exact else 'trees')
            if i < 2:
                r.sample(dict(markdown=trees.to_markdown(blocks, dict(trees.DEFAULTS, table_pipes='padded'))[0]), 1)
    elif kind == 'uniblank':
        # a line holding nothing but white space that is not blank or tab: whatever the parser makes of it, the rendering must
        # parse to the same document
        # (not after indented code: white-space-only lines inside code blocks are the recorded finding of spec examples 112/129;
        # not the characters str.splitlines() treats as line ends: excluded by the property)
        firsts = ['a', '> q', '<div>', '[l]: /u', '- i', '# h', '```\nc\n```', '| a |\n|---|']
        seconds = ['b', '[l]', '- j', '> r', '# k']
        for ws in ('\u00a0', '\u2003', '\u3000', ' \u00a0 ', '\u00a0\u00a0', '\u200b', '\ufeff', '\u1680', '\u202f'):
            for a_ in firsts:
                for b_ in seconds:
                    md = a_ + '\n' + ws + '\n' + b_ + '\n'
                    r.states += 1
                    for nw in (False, True):
                        r.transitions += 1
                        bad = roundtrip(md, nw, False)
                        if bad is None:
                            r.skip('input cannot be rendered (C01)')
                            continue
                        r.validated += 1
                        for clause, want, got in bad:
                            r.fail(dict(markdown=md, normalize_whitespace=nw, clause=clause, exact=False), clause + ':unicode-blank-line', expected=want, observed=got)
                        r.outcome('uniblank')
        r.sample(dict(space='lines of non-ASCII white space between blocks'), 1)
    elif kind == 'inlinespell':
        for case in inlinespell.cases_of_job(job):
            r.states += 1
            if ('&' in case[1] and ';' in case[1] or '\\' in case[3].get('dest', '') + case[3].get('title', '')
                    or (case[0] == 'prefix' and case[3]['prefix'] is None)):
                r.skip('character reference, or backslash escape in a destination/title (recorded by the property itself, outside the domain)')
                continue
            for ctx in inlinespell.CONTEXTS:
                x = inlinespell.in_context(case, ctx)
                if x is None:
                    continue
                md = x[0]
                for nw in (False, True):
                    r.transitions += 1
                    bad = roundtrip(md, nw, False)
                    if bad is None:
                        r.skip('input cannot be rendered (C01)')
                        continue
                    r.validated += 1
                    for clause, want, got in bad:
                        r.fail(dict(markdown=md, normalize_whitespace=nw, clause=clause, exact=False, family=case[0], context=ctx),
                               clause + ':inline-spelling:' + case[0], expected=want, observed=got)
                    r.outcome('inline-spelling:' + case[0])
        r.sample(dict(space='inline spellings', family=job[1]), 1)
    elif kind == 'leafspell':
        for case in leafspell.cases_of_job(job):
            r.states += 1
            if case[0] in ('para', 'setext', 'lazy') and any(l.startswith(('    ', '\t', ' \t', '  \t')) for l in case[1][1:]):
                r.skip('continuation line indented >= 4 (recorded by the property itself, outside the domain)')
                continue
            for ctx in leafspell.CONTEXTS:
                x = leafspell.in_context(case, ctx)
                if x is None:
                    continue
                md = x[0]
                for nw in (False, True):
                    r.transitions += 1
                    bad = roundtrip(md, nw, False)
                    if bad is None:
                        r.skip('input cannot be rendered (C01)')
                        continue
                    r.validated += 1
                    for clause, want, got in bad:
                        r.fail(dict(markdown=md, normalize_whitespace=nw, clause=clause, exact=False, family=case[0], context=ctx),
                               clause + ':leaf-spelling:' + case[0], expected=want, observed=got)
                    r.outcome('leaf:' + case[0])
        r.sample(dict(space='leaf spellings', family=job[1]), 1)
    else:
        import itertools
        nl = len(inlines.LEAVES)
        ok = [i for i in range(nl) if inlines.LEAVES[i][0] not in EXCLUDED_LEAVES]
        nodes = []
        if kind == 'inline':
            first, k = job[1], job[2]
            if first in ok:
                for n in range(1, k + 1):
                    for rest in itertools.product(ok, repeat=n - 1):
                        nodes.append(inlines.seq([inlines.leaf(i) for i in (first,) + rest]))
        else:
            ci = job[1]
            for n in (1, 2):
                for ls in itertools.product(ok, repeat=n):
                    w = inlines.wrap(ci, inlines.seq([inlines.leaf(i) for i in ls]))
                    if w is not None:
                        nodes.append(w)
        for node in nodes:
            r.states += 1
            for cx in range(len(inlines.CONTEXT_NAMES)):
                ctx = inlines.in_context(cx, node)
                if ctx is None:
                    continue
                md = ctx[0]
                if cx == 2:
                    md = pad_table_context(node.md)
                if cx == 5:
                    md = pad_table_context(node.md, header=True)
                for nw in (False, True):
                    r.transitions += 1
                    bad = roundtrip(md, nw, True)
                    if bad is None:
                        r.skip('input cannot be rendered (C01)')
                        continue
                    r.validated += 1
                    for clause, want, got in bad:
                        r.fail(dict(markdown=md, normalize_whitespace=nw, clause=clause, exact=True), clause + ':inline:' + inlines.CONTEXT_NAMES[cx],
                               expected=want, observed=got)
                    r.outcome('inline')
    return r


def pad_table_context(md, header=False):
    cell = 'w ' + md
    w = max(3, len(cell))
    if header:
        return ('| ' + cell.ljust(w) + ' | k   |\n| ' + '-' * w + ' | --- |\n| ' + 'x'.ljust(w) + ' | y   |' + inlines.REFDEFS)
    return ('| ' + 'h'.ljust(w) + ' | k   |\n| ' + '-' * w + ' | --- |\n| ' + cell.ljust(w) + ' | y   |' + inlines.REFDEFS)


def replay(case):
    bad = roundtrip(case['markdown'], case['normalize_whitespace'], case.get('exact', False))
    for clause, want, got in bad or []:
        if clause == case['clause']:
            kf = case.get('kf')
            if 'example' in case:
                known = {('meaning-changed', False): SPEC_KNOWN_MEANING, ('meaning-changed', True): SPEC_KNOWN_MEANING_NW,
                         ('not-idempotent', False): SPEC_KNOWN_IDEM, ('not-idempotent', True): SPEC_KNOWN_IDEM_NW}.get((clause, case['normalize_whitespace']), set())
                kf = 'KF-C09-spec-examples' if case['example'] in known else None
            return dict(sig=clause, expected=want, observed=got, kf=kf)
    return None
