"""C18 - HTML-based contrib renderers conservatively extend HtmlRenderer (E1, differential)."""
import re
import itertools
from mc import core, configs, spaces, trees, leafspell, inlinespell

ID = 'C18'
TECHNIQUE = ('exhaustive enumeration of words over 8 cluster alphabets, texts over the line alphabet and the edit-1 '
             'neighbourhood of the spec corpus x the 8 HtmlRenderer option combinations; Toc/GithubWiki/MathJax/Pygments '
             'output compared byte for byte with HtmlRenderer output on the same input')
ASSUMPTIONS = ['side conditions are decided syntactically: GithubWiki inputs matching \\[\\[.*\\|.*\\]\\] are out, MathJax inputs '
               'with "$" are out, Pygments inputs whose HtmlRenderer output holds <pre> are out',
               'escape options are attributes assigned per render on one instance per parse; texts of <= 2 lines over the line alphabet '
               'are additionally rendered with every option set passed through the real constructor keywords']

DEPTH = {'quick': dict(emph=6, block=4, link=4, html=4, misc=3, code=4, uni=3, wiki=4),
         'thorough': dict(emph=9, block=5, link=5, html=5, misc=5, code=6, uni=5, wiki=6)}
LINES_K = {'quick': 3, 'thorough': 4}
CONTRIB = ['Toc', 'GithubWiki', 'MathJax', 'Pygments']
# '</body>' / '<head>': raw HTML that a renderer which post-processes the finished page might look for
LINES18 = spaces.LINES + spaces.LINES_C01_EXTRA + ['it\'s "q" <b>x</b> & c', '[l\'k](</u v> "t\'")', '</body>', 'a </body> b <head>']
OPTS = [dict(html_escape_double_quotes=a, html_escape_single_quotes=b) for a in (False, True) for b in (False, True)]
WIKI = re.compile(r'\[\[.*\|.*\]\]', re.DOTALL)
MATHJAX_SRC = '<script src="https://cdnjs.cloudflare.com/ajax/libs/mathjax/2.7.0/MathJax.js?config=TeX-MML-AM_CHTML"></script>\n'


def describe(tier):
    return dict(word_depth=DEPTH[tier], max_lines=LINES_K[tier], edit1=(tier == 'thorough'), contrib=CONTRIB,
                options=OPTS, process_html_tokens=[True, False])


def jobs(tier):
    js = []
    for name, k in DEPTH[tier].items():
        alpha = spaces.ALPHABETS[name]
        for j in core.word_jobs(name, alpha, k, 2 if len(alpha) ** 2 <= 200 else 1):
            js.append(('words', name, j[1], j[2]))
    L = LINES18
    for i in range(len(L)):
        js.append(('lines', i, LINES_K[tier]))
    step = 8 if tier == 'thorough' else 24
    for lo in range(0, 652, step):
        js.append(('edit', lo, lo + step, tier))
    nt = 3 if tier == 'quick' else 4
    for n in range(1, nt + 1):
        ns = 1 if n < 3 else (16 if n == 3 else 128)
        js += [('trees', n, 2 if tier == 'quick' else 3, sh, ns) for sh in range(ns)]
    js += [j + (tier,) for j in leafspell.jobs() + inlinespell.jobs()]
    return js


def render_class(name, pht, text, via_ctor=False):
    """[(opts, out)] or exception. via_ctor: every option set through the real constructor keywords (one parse each)"""
    from mistletoe import Document
    core.fresh()
    R = configs.renderer_class(name)
    outs = []
    if via_ctor:
        for o in OPTS:
            core.fresh()
            with core.time_limit(20):
                with R(process_html_tokens=pht, **o) as rend:
                    outs.append(rend.render(Document(text)))
        return outs
    with core.time_limit(20):
        with R(process_html_tokens=pht) as rend:
            doc = Document(text)
            for o in OPTS:
                rend.html_escape_double_quotes = o['html_escape_double_quotes']
                rend.html_escape_single_quotes = o['html_escape_single_quotes']
                outs.append(rend.render(doc))
    return outs


def applicable(name, text, base_out):
    if name == 'GithubWiki':
        return not WIKI.search(text)
    if name == 'MathJax':
        return '$' not in text
    if name == 'Pygments':
        return '<pre>' not in base_out
    return True


def compare(text, pht, only=None, via_ctor=False):
    """list of failures for this text / process_html_tokens value"""
    res = []
    try:
        base = render_class('Html', pht, text, via_ctor)
    except (Exception, core.EvalTimeout):
        return None
    for name in CONTRIB:
        if only and name != only:
            continue
        if not applicable(name, text, base[0]):
            res.append((name, None, 'skip'))
            continue
        try:
            outs = render_class(name, pht, text, via_ctor)
        except core.EvalTimeout:
            res.append((name, None, 'timeout'))
            continue
        except Exception as e:
            res.append((name, None, core.exc_sig(e)))
            continue
        for o, b, x in zip(OPTS, base, outs):
            want = b + (MATHJAX_SRC if name == 'MathJax' else '')
            if x != want:
                res.append((name, o, ('differs', want, x)))
            else:
                res.append((name, o, 'same'))
    return res


def run_text(r, text, via_ctor=False):
    r.states += 1
    for pht in (True, False):
        res = compare(text, pht, via_ctor=via_ctor)
        if res is None:
            r.skip('HtmlRenderer itself raised or timed out (C01)')
            continue
        for name, o, what in res:
            if what == 'skip':
                r.skip('uses the extension of ' + name)
                continue
            r.transitions += 1
            r.validated += 1
            if what == 'same':
                r.outcome('same:' + name)
            elif isinstance(what, tuple):
                r.fail(dict(text=text, renderer=name, process_html_tokens=pht, opts=o), 'output-differs:' + name,
                       expected=what[1], observed=what[2])
            else:
                r.fail(dict(text=text, renderer=name, process_html_tokens=pht, opts=o), what + ':' + name)


def run_job(job):
    r = core.Result()
    kind = job[0]
    if kind == 'words':
        _, name, prefix, k = job
        alpha = spaces.ALPHABETS[name]
        for w in core.words_of_job(alpha, prefix, k):
            run_text(r, ''.join(w))
        r.sample(dict(space=name, text=''.join(alpha[i] for i in (prefix or ())) + alpha[0]), 1)
    elif kind == 'lines':
        _, first, k = job
        L = LINES18
        for n in range(1, k + 1):
            for rest in itertools.product(L, repeat=n - 1):
                # texts of <= 2 lines go through the real constructor keywords (option pass-through of the contrib classes)
                run_text(r, spaces.lines_text((L[first],) + rest), via_ctor=(n <= 2))
        r.sample(dict(space='lines', text=spaces.lines_text((L[first], L[0]))), 1)
    elif kind == 'trees':
        _, n, depth, sh, ns = job
        for i, blocks in enumerate(trees.all_docs(n, depth)):
            if i % ns == sh:
                run_text(r, trees.to_markdown(blocks, trees.DEFAULTS)[0])
        r.sample(dict(space='generated trees', nodes=n), 1)
    elif kind in ('leafspell', 'inlinespell'):
        mod = leafspell if kind == 'leafspell' else inlinespell
        ctxs = mod.CONTEXTS if job[3] == 'thorough' else (['alone', 'in-list-item'] if kind == 'leafspell' else ['paragraph-mid', 'atx heading'])
        for case in mod.cases_of_job(job[:3]):
            for ctx in ctxs:
                x = mod.in_context(case, ctx)
                if x is not None:
                    run_text(r, x[0])
        r.sample(dict(space=kind, family=job[1]), 1)
    elif kind == 'edit':
        from checks import c02
        toks = spaces.EDIT_SMALL if job[3] == 'thorough' else ['[', '|', '$', '`']
        for ex in c02.corpus()[job[1]:job[2]]:
            seen = set()
            for text in spaces.edit1(ex['markdown'], toks):
                if text not in seen:
                    seen.add(text)
                    run_text(r, text)
            r.sample(dict(space='edit1', example=ex['example'], variants=len(seen)), 1)
    return r


def replay(case):
    from mistletoe import Document
    text, name, pht = case['text'], case['renderer'], case['process_html_tokens']
    o = case.get('opts') or OPTS[0]
    try:
        core.fresh()
        with configs.renderer_class('Html')(process_html_tokens=pht, **o) as rend:
            base = rend.render(Document(text))
    except Exception:
        return None
    if not applicable(name, text, base):
        return None
    try:
        core.fresh()
        with configs.renderer_class(name)(process_html_tokens=pht, **o) as rend:
            out = rend.render(Document(text))
    except Exception as e:
        return dict(sig=core.exc_sig(e) + ':' + name, detail=repr(e))
    want = base + (MATHJAX_SRC if name == 'MathJax' else '')
    if out != want:
        return dict(sig='output-differs:' + name, expected=want, observed=out)
    return None
