"""C14 - ordinary prose passes through unchanged (E1 over a word vocabulary + inertness model)."""
import itertools
from mc import core
from models import inert

ID = 'C14'
TECHNIQUE = ('exhaustive enumeration of all token sequences (length <= 2/3 over a 141-token vocabulary, <= 3/4 over a '
             '40-token sub-vocabulary) x every placement of line breaks, filtered by a spec-derived inertness '
             'predicate; output must be exactly the escaped text in one <p>')
ASSUMPTIONS = ['models/inert.py is conservative: paragraphs it rejects are outside the domain and only counted']

VOC = ['foo', 'bar', 'snake_case', '_x', 'x_', 'a_b_c', '*', '-', '+', '#', '>', '=', '|', '~', '^', '$', '%', '@',
       '[', ']', '(', ')', 'a[1', 'b]', '&', 'AT&T', 'a&b;', '&c', '3.14', '1.5)', '(a)', 'v2.0.', '2', '10', '.', ')',
       '..', '...', '--', '==', '##', 'a#', '#a', '!', '!a', 'a!', '"q"', "'s'", '<', 'a<b', '>=', '<=', '->', '=>',
       'a*b', '2*3', '**', '__', '~x', 'x~', '~~', '`', 'a`', '{', '}', '\\a', 'a\\', '/', 'a/b', ':', ';', 'a:b', '?',
       '1.', '1)', '-a', '+1', '*a', 'a*', '100%', '$5', 'e.g.', 'i.e.,', 'x=y', 'a|b', '|a', '#1', 'C#', '<3', '&&',
       '||', 'a--b', '1-2', '1.2.3', '(1)', '[x]', '[ ]', '(c)', 'a.)', "it's", '"', 'a"b', '\xe9', '\xfc_\xfc',
       '日本', '\xa1hola!', '“q”', '—', 'a—b', '5>3', 'x^2', 'a_', '_', 'a~b', '1.a',
       '.a', 'a)', '#.', '=a', '>a', '&notit;', '0.', '12)', '&amp', '***', '___', '=-', '--|x', '|-x', '-1|2', ':-', '-:', '10.', '1986.',
       # words ending in a combining mark / format character (general categories Mn, Mc, Cf: neither punctuation nor white space) before '_'
       '``', 'x```', 'a``', ':-:', '--:', '&#x1234567;', '&#12345678;', '&#x0000041;',
       're\u0301sume\u0301_final_', 'a\u200c_b_', '\u0915\u093f_\u0916_', '\u0e19\u0e35\u0e48_x_', 'x\xad*y*z', '*\u0301a']
SUB = ['foo', 'snake_case', '_x', 'x_', '*', '-', '+', '#', '>', '=', '|', '~', '[', ']', '(', ')', '&', 'AT&T', 'a&b;',
       '3.14', '1.5)', '2', '.', ')', '--', '==', 'a#', '<', 'a<b', '**', '__', '`', '\\a', 'a\\', '1.', '1)', '*a',
       'a*', '[x]', '&notit;', '12)', '10.', 're\u0301sume\u0301_final_', '``', 'x```', 'a|b', '-1|2', '--|x', ':-:', '&#x1234567;']

BOUNDS = {'quick': dict(full=2, sub=3), 'thorough': dict(full=3, sub=4)}


def describe(tier):
    b = BOUNDS[tier]
    return dict(vocabulary=len(VOC), sub_vocabulary=len(SUB), max_tokens_full=b['full'], max_tokens_sub=b['sub'],
                line_break_placements='all 2^(n-1)')


def jobs(tier):
    b = BOUNDS[tier]
    js = [('full', i, b['full']) for i in range(len(VOC))]
    js += [('sub', i, b['sub']) for i in range(len(SUB))]
    return js


def paragraphs(toks):
    n = len(toks)
    for mask in range(2 ** (n - 1)):
        lines = []
        cur = []
        for i, tk in enumerate(toks):
            cur.append(tk)
            if i < n - 1 and (mask >> i) & 1:
                lines.append(' '.join(cur))
                cur = []
        lines.append(' '.join(cur))
        yield lines


def evaluate(lines):
    from mistletoe import Document, HtmlRenderer
    core.fresh()
    text = '\n'.join(lines)
    want = inert.expected_html(lines)
    try:
        with core.time_limit(10):
            with HtmlRenderer() as r:
                got = r.render(Document(text))
    except core.EvalTimeout:
        return dict(sig='timeout')
    except Exception as e:
        return dict(sig=core.exc_sig(e), detail=repr(e))
    if got != want:
        kind = 'not-a-single-paragraph' if not (got.startswith('<p>') and got.count('<p>') == 1 and '<' not in got[3:-5]) else 'text-altered'
        return dict(sig=kind, expected=want, observed=got)
    return None


def classify(lines, f):
    return None


def run_job(job):
    space, first, k = job
    voc = VOC if space == 'full' else SUB
    r = core.Result()
    minlen = 1 if space == 'full' else BOUNDS['quick']['full'] + 1   # shorter sub-vocabulary words are covered by 'full'
    for n in range(1, k + 1):
        for rest in itertools.product(voc, repeat=n - 1):
            toks = (voc[first],) + rest
            if space == 'sub' and n < 3:
                continue
            for lines in paragraphs(toks):
                why = inert.why_not_inert(lines)
                if why:
                    r.skip(why)
                    continue
                r.states += 1
                r.transitions += 1
                r.validated += 1
                f = evaluate(lines)
                if f:
                    r.fail(dict(lines=lines), f['sig'], f.get('detail', ''), kf=classify(lines, f),
                           expected=f.get('expected'), observed=f.get('observed'))
                r.outcome('lines=%d' % len(lines))
    r.sample(dict(lines=[voc[first] + ' ' + voc[0], voc[1]]), 1)
    return r


def replay(case):
    lines = case['lines']
    if inert.why_not_inert(lines):
        return None
    f = evaluate(lines)
    if f:
        f['kf'] = classify(lines, f)
    return f
