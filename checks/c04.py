"""C04 - quoting or list-indenting any document wraps its parse unchanged (E1, line alphabet)."""
import itertools
from mc import core, spaces, trees, leafspell, inlinespell

ID = 'C04'
TECHNIQUE = ('exhaustive enumeration of all texts of <= 3/4 lines over a 30-line alphabet, each embedded under "> ", under '
             'bare ">" and as a list item for every marker x padding; AST(embed(T)) must be one quote / one single-item '
             'list whose children equal AST(T) with line numbers set aside, and the link definitions must be equal')
ASSUMPTIONS = ['embedding follows spec 5.1/5.2 basic cases: every later non-empty line (whitespace-only ones included) is '
               'indented by the marker width; bare ">" only on lines not starting with a space',
               'parsed with the HtmlRenderer token set; both sides of the law come from the implementation']
L = spaces.LINES
# one line deeper over the lines that switch parser state on and off (quotes, setext underlines, list items, fences)
LDEEP = ['> q', '', 'foo', '===', '---', '- a', '```', '  b']
BOUNDS = {'quick': 3, 'thorough': 4}
MARKERS = {'quick': [('-', 1), ('-', 3), ('1.', 1), ('1.', 3), ('*', 2), ('7)', 4)],
           'thorough': [(m, p) for m in ('-', '+', '*', '1.', '7)', '123.') for p in (1, 2, 3, 4)]}
THEMATIC = __import__('re').compile(r'^ {0,3}([-_*])[ \t]*(\1[ \t]*){2,}$')
THEMATIC_SAME = {('-', '---'), ('*', '***'), ('*', '* * *')}


def describe(tier):
    return dict(line_alphabet=L, max_lines=BOUNDS[tier], list_markers=MARKERS[tier], quote_markers=['> ', '>'],
                also='tab-free spec examples not ending in a blank line; generated trees (<= 3/4 nodes, canonical spelling)')


def jobs(tier):
    k = BOUNDS[tier]
    extra = [('spec', lo, lo + 41, tier) for lo in range(0, 652, 41)]
    nt = 3 if tier == 'quick' else 4
    for n in range(1, nt + 1):
        ns = 1 if n < 3 else (16 if n == 3 else 128)
        extra += [('trees', n, 2 if tier == 'quick' else 3, tier, sh, ns) for sh in range(ns)]
    extra += [j + (tier,) for j in leafspell.jobs() + inlinespell.jobs()]
    extra += [('deep', i, tier) for i in range(len(LDEEP))]
    extra += [('nest', n, tier) for n in (31, 32, 33, 63, 64, 65, 98, 99, 100, 101)]
    if tier == 'quick':
        return [(i, None, k, tier) for i in range(len(L))] + extra
    return [(i, j, k, tier) for i in range(len(L)) for j in range(len(L))] + [(i, None, 1, tier) for i in range(len(L))] + extra


def strip_ln(a):
    if isinstance(a, dict):
        return {k: strip_ln(v) for k, v in a.items() if k != 'line_number'}
    if isinstance(a, list):
        return [strip_ln(x) for x in a]
    return a


def ast_of(text, setext=True):
    from mistletoe import Document, block_token
    from mistletoe.html_renderer import HtmlRenderer
    from mistletoe.ast_renderer import get_ast
    core.fresh()
    with HtmlRenderer():
        if not setext:
            block_token.Paragraph.parse_setext = False      # defect model of KF-C04-setext-in-quote
        a = strip_ln(get_ast(Document(text)))
    return a['children'], a['footnotes']


def embed_quote(lines, bare):
    return [('>' if (bare and not l.startswith(' ')) else '> ') + l for l in lines]


def embed_list(lines, marker, pad):
    W = len(marker) + pad
    out = [marker + ' ' * pad + lines[0]]
    for l in lines[1:]:
        out.append((' ' * W + l) if l else l)
    return out


def variants(lines, tier):
    yield 'quote', '> ', embed_quote(lines, False)
    yield 'quote', '>', embed_quote(lines, True)
    if lines[0] and not lines[0].startswith(' '):
        for m, p in MARKERS[tier]:
            if (m, lines[0]) in THEMATIC_SAME or THEMATIC.match(m + ' ' * p + lines[0]):
                continue        # marker + first line read as a thematic break: the spec resolves it the other way
            yield 'list', '%s+%d' % (m, p), embed_list(lines, m, p)


def check_embedding(lines, kind, how, emb, base):
    """None or failure dict (with kf when the failure matches a recorded defect model exactly)"""
    try:
        ch, fn = ast_of('\n'.join(emb) + '\n')
    except Exception as e:
        return dict(sig=core.exc_sig(e), detail=repr(e))
    want_type = 'Quote' if kind == 'quote' else 'List'
    inner = None
    if len(ch) == 1 and ch[0]['type'] == want_type:
        if kind == 'quote':
            inner = ch[0]['children']
        elif len(ch[0]['children']) == 1:
            inner = ch[0]['children'][0]['children']
    if inner is not None and inner == base[0] and fn == base[1]:
        return None
    f = dict(sig='%s-embedding-changes-parse' % kind, expected=base[0], observed=ch)
    if inner is None:
        f['sig'] = '%s-embedding-not-a-single-container' % kind
    elif fn != base[1]:
        f['sig'] = '%s-embedding-changes-link-definitions' % kind
        f['expected'], f['observed'] = base[1], fn
    # defect models: the failure is attributed to a recorded finding only if the observed content is exactly what
    # that defect alone would produce
    if kind == 'quote' and inner is not None:
        try:
            alt = ast_of('\n'.join(lines) + '\n', setext=False)
        except Exception:
            alt = None
        if alt is not None and alt != base and inner == alt[0] and fn == alt[1] and setext_before_first_quote(base[0]):
            f['kf'] = 'KF-C04-setext-in-quote'
    if kind == 'list' and inner is not None and any(l and not l.strip() for l in lines):
        blanked = [l if l.strip() else '' for l in lines]
        try:
            alt = ast_of('\n'.join(blanked) + '\n')
        except Exception:
            alt = None
        if alt is not None and inner == alt[0] and fn == alt[1]:
            f['kf'] = 'KF-C04-whitespace-only-line-in-list-item'
    return f


def setext_before_first_quote(children):
    """static class predicate of KF-C04-setext-in-quote, read off the parse of the plain text T: T holds a setext heading that
    comes, in document order, before the end of T's first block quote (list items are searched, quotes are not entered). Only
    such headings are lost when T is quoted: the reader of every quote switches recognition back on when it is done. (The
    defect model alone is computed with the code under test and would follow a change of that switch.)"""
    def walk(nodes):
        for n in nodes:
            t = n.get('type')
            if t == 'SetextHeading':
                return True
            if t == 'Quote':
                return False
            if t in ('List', 'ListItem'):
                r = walk(n.get('children') or [])
                if r is not None:
                    return r
        return None
    return walk(children) is True


def nested_variants(lines, tier):
    """two embeddings applied one after the other (quote in list item, list item in quote, ...)"""
    inner = [('quote', '> ', embed_quote(lines, False))]
    if lines[0] and not lines[0].startswith(' '):
        inner += [('list', '%s+%d' % (m, p), embed_list(lines, m, p)) for m, p in (('-', 1), ('10.', 2), ('1)', 3))
                  if not THEMATIC.match(m + ' ' * p + lines[0])]
    for k1, h1, e1 in inner:
        yield ('quote', k1), '> (' + h1 + ')', embed_quote(e1, False)
        yield ('quote', k1), '>(' + h1 + ')', embed_quote(e1, True)
        if e1[0] and not e1[0].startswith(' '):
            for m, p in (('-', 1), ('10.', 1), ('7)', 4)):
                if not THEMATIC.match(m + ' ' * p + e1[0]):
                    yield ('list', k1), '%s+%d(%s)' % (m, p, h1), embed_list(e1, m, p)


def check_nested(lines, kinds, how, emb, base):
    try:
        ch, fn = ast_of('\n'.join(emb) + '\n')
    except Exception as e:
        return dict(sig=core.exc_sig(e), detail=repr(e))
    node = ch
    for kind in kinds:
        want_type = 'Quote' if kind == 'quote' else 'List'
        if not (len(node) == 1 and node[0]['type'] == want_type):
            node = None
            break
        if kind == 'quote':
            node = node[0]['children']
        else:
            if len(node[0]['children']) != 1:
                node = None
                break
            node = node[0]['children'][0]['children']
    if node is not None and node == base[0] and fn == base[1]:
        return None
    return dict(sig='nested-embedding-changes-parse:%s-in-%s' % (kinds[1], kinds[0]), expected=base[0], observed=ch)


def has_known_defect_trigger(lines, base):
    """inputs of the two recorded findings are kept out of the nested family (they are judged, with their defect
    models, by the single embeddings)"""
    if any(l and not l.strip() for l in lines):
        return True
    import json
    return 'SetextHeading' in json.dumps(base[0])


def run_text(r, lines, tier):
    text = '\n'.join(lines) + '\n'
    try:
        base = ast_of(text)
    except Exception:
        r.skip('T alone raises (C01)')
        return
    r.states += 1
    if len(lines) <= 2 and not has_known_defect_trigger(lines, base):
        for kinds, how, emb in nested_variants(lines, tier):
            r.transitions += 1
            r.validated += 1
            f = check_nested(lines, kinds, how, emb, base)
            if f:
                r.fail(dict(lines=lines, kind='nested', how=how, kinds=list(kinds), embedded=emb), f['sig'], f.get('detail', ''),
                       expected=f.get('expected'), observed=f.get('observed'))
            r.outcome('nested:' + kinds[0] + '/' + kinds[1])
    for kind, how, emb in variants(lines, tier):
        r.transitions += 1
        r.validated += 1
        f = check_embedding(lines, kind, how, emb, base)
        if f:
            r.fail(dict(lines=lines, kind=kind, how=how), f['sig'], f.get('detail', ''), kf=f.get('kf'),
                   expected=f.get('expected'), observed=f.get('observed'))
        r.outcome(kind + ':' + (base[0][0]['type'] if base[0] else 'empty'))


def run_job(job):
    r = core.Result()
    if job[0] == 'spec':
        from checks import c02
        for ex in c02.corpus()[job[1]:job[2]]:
            md = ex['markdown']
            if '\t' in md or not md.endswith('\n') or md.endswith('\n\n') or md.strip() == '' or any(c in md for c in '\r\x0b\x0c'):
                r.skip('spec example with a tab / ending in a blank line / empty')
                continue
            run_text(r, md[:-1].split('\n'), job[3])
        r.sample(dict(space='spec corpus', examples=[job[1] + 1, job[2]]), 1)
        return r
    if job[0] in ('leafspell', 'inlinespell'):
        # every spelling of every leaf block / inline construct as the document T that is wrapped
        mod = leafspell if job[0] == 'leafspell' else inlinespell
        ctxs = ['alone', 'then-paragraph', 'after-paragraph'] if job[0] == 'leafspell' else ['paragraph', 'paragraph-mid']
        for case in mod.cases_of_job(job[:3]):
            for ctx in ctxs:
                x = mod.in_context(case, ctx)
                if x is None:
                    continue
                md = x[0]
                if '\t' in md or not md.endswith('\n') or md.endswith('\n\n') or md.strip() == '':
                    r.skip('text with a tab / ending in a blank line / empty')
                    continue
                run_text(r, md[:-1].split('\n'), job[3])
        r.sample(dict(space=job[0], family=job[1]), 1)
        return r
    if job[0] == 'nest':
        # texts that are already nested n levels deep (thresholds of a depth guard would show when one more level is added)
        n = job[1]
        for text in ('> ' * n + 'a', '- ' * n + 'a', '> - ' * (n // 2) + 'a', '1. ' * n + 'a', '> ' * n + '# h\n' + '> ' * n + 'p'):
            run_text(r, text.split('\n'), job[2])
        r.sample(dict(space='deep nesting', levels=n), 1)
        return r
    if job[0] == 'deep':
        k = BOUNDS[job[2]] + 1
        for rest in itertools.product(LDEEP, repeat=k - 1):
            lines = [LDEEP[job[1]]] + list(rest)
            if lines[-1].strip() == '' or lines[0].strip() == '':
                continue
            run_text(r, lines, job[2])
        r.sample(dict(space='deep sub-alphabet', lines=LDEEP, length=k), 1)
        return r
    if job[0] == 'trees':
        _, n, depth, tier, sh, ns = job
        for i, blocks in enumerate(trees.all_docs(n, depth)):
            if i % ns == sh:
                md = trees.to_markdown(blocks, trees.DEFAULTS)[0]
                if md.strip() and not md.endswith('\n\n'):
                    run_text(r, md[:-1].split('\n'), tier)
        r.sample(dict(space='generated trees', nodes=n), 1)
        return r
    first, second, k, tier = job
    for n in range(1, k + 1):
        if second is not None and n < 2:
            continue
        for rest in itertools.product(L, repeat=n - 1):
            if second is not None and rest[0] != L[second]:
                continue
            lines = [L[first]] + list(rest)
            if lines[-1].strip() == '' or any('\t' in l for l in lines):
                continue
            run_text(r, lines, tier)
    r.sample(dict(lines=[L[first], L[2]], embeddings=['> ', '>', '- ', '1.   ']), 1)
    return r


def replay(case):
    lines = case['lines']
    if case.get('kind') == 'nested':
        try:
            base = ast_of('\n'.join(lines) + '\n')
        except Exception:
            return None
        return check_nested(lines, tuple(case['kinds']), case['how'], case['embedded'], base)
    try:
        base = ast_of('\n'.join(lines) + '\n')
    except Exception:
        return None
    tier = 'thorough'
    for kind, how, emb in variants(lines, tier):
        if kind == case['kind'] and how == case['how']:
            return check_embedding(lines, kind, how, emb, base)
    for kind, how, emb in variants(lines, 'quick'):
        if kind == case['kind'] and how == case['how']:
            return check_embedding(lines, kind, how, emb, base)
    return None
