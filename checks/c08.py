"""C08 - HTML output is well-formed and document text cannot inject markup (E1 + output scanner)."""
import html
from urllib.parse import unquote
from mc import core, spaces, inlinespell, leafspell
from models import scan_html

ID = 'C08'
TECHNIQUE = ('exhaustive enumeration of all words over five attribute/text-reaching cluster alphabets and of the edit-1 '
             'neighbourhood of the spec corpus over quote/bracket/ampersand tokens x process_html_tokens x both escape '
             'options, every output judged by a strict scanner; escaping helpers exhaustively over every code point and '
             'all ordered pairs of the non-identity code points')
ASSUMPTIONS = ['raw HTML blocks/spans are set aside by a harness subclass of HtmlRenderer that overrides only '
               'render_html_block/render_html_span with a private-use placeholder',
               'escape options are assigned as attributes per render; replay uses the constructor']

ALPH = {
    'linkimg': ['[', ']', '(', ')', '!', 'a', '"', '<', '>', '&', ' ', "'", '\\'],
    'info': ['`', '~', '\n', ' ', 'a', '"', '<', '&'],
    'autolink': ['<', '>', 'a', '@', ':', '/', '&', '"', '.', ' ', 'aa:'],
    'table': ['|', '-', ':', '\n', 'a', '<', '&', '"', '#'],
    'refdef': ['[', ']', ':', 'a', '"', "'", '(', ')', '<', '>', '\n', ' '],
}
DEPTH = {'quick': dict(linkimg=5, info=6, autolink=5, table=5, refdef=5),
         'thorough': dict(linkimg=6, info=7, autolink=7, table=7, refdef=6)}
EDIT_TOKENS = ['"', "'", '<', '>', '&', '`']
ROLE_STRINGS = ['"', "'", '<', '>', '&', 'a"b', "a'b", '<b>', '&amp;', '&quot;', '">', 'x&y', '<!--', '</p>', '\\"',
                # an absolute URL whose host part is not ASCII, next to the characters that must never reach an attribute raw
                # percent-encoded markup characters (decoding them after escaping would bring them back raw)
                '%3Cb%3E%26%22', 'a%3Cscript%3E', '%26lt;%22',
                'http://b\xfc"c.d/', 'http://\uff02x\uff1c.d/', 'h\xe9"<', 'http://u@\u65e5"/']
OPTS = [dict(html_escape_double_quotes=a, html_escape_single_quotes=b) for a in (False, True) for b in (False, True)]
_SetAside = None


def describe(tier):
    return dict(alphabets=ALPH, depth=DEPTH[tier], edit1_tokens=EDIT_TOKENS, options=OPTS,
                process_html_tokens=[False, True], helper_sweep='every code point + all ordered pairs of non-identity code points')


def set_aside_class():
    global _SetAside
    if _SetAside is None:
        from mistletoe.html_renderer import HtmlRenderer

        class SetAsideHtmlRenderer(HtmlRenderer):
            def render_html_block(self, token):
                return scan_html.PLACEHOLDER

            def render_html_span(self, token):
                return scan_html.PLACEHOLDER
        SetAsideHtmlRenderer.__name__ = 'HtmlRenderer'
        _SetAside = SetAsideHtmlRenderer
    return _SetAside


def jobs(tier):
    js = []
    for name, k in DEPTH[tier].items():
        alpha = ALPH[name]
        for j in core.word_jobs(name, alpha, k, 2 if len(alpha) <= 10 else 1):
            js.append(('words', name, j[1], j[2]))
    for lo in range(0, 652, 8):
        js.append(('edit', lo, lo + 8))
    for i in range(len(ROLE_STRINGS)):
        js.append(('roles', i))
    step = 0x110000 // 32
    for lo in range(0, 0x110000, step):
        js.append(('helpers', lo, min(0x110000, lo + step)))
    js.append(('pairs',))
    js += leafspell.jobs() + inlinespell.jobs()
    return js


def render_all(text):
    """yield (pht, opts, out or exception)"""
    from mistletoe import Document
    from mistletoe.html_renderer import HtmlRenderer
    for pht in (False, True):
        core.fresh()
        R = set_aside_class() if pht else HtmlRenderer
        try:
            with core.time_limit(10):
                with R(process_html_tokens=pht) as rend:
                    doc = Document(text)
                    for o in OPTS:
                        rend.html_escape_double_quotes = o['html_escape_double_quotes']
                        rend.html_escape_single_quotes = o['html_escape_single_quotes']
                        yield pht, o, rend.render(doc)
        except core.EvalTimeout:
            yield pht, None, None
        except Exception as e:
            yield pht, None, e


def run_text(r, text):
    r.states += 1
    for pht, o, out in render_all(text):
        r.transitions += 1
        if o is None:
            # totality is C01's business; count and move on
            r.skip('parse/render raised or timed out (C01)')
            continue
        r.validated += 1
        why = scan_html.scan(out, dq=o['html_escape_double_quotes'], sq=o['html_escape_single_quotes'], strict_content=False)
        if why:
            r.fail(dict(text=text, process_html_tokens=pht, opts=o), why, observed=out)
            r.outcome('bad')
        else:
            r.outcome('ok:attrs' if '="' in out else ('ok:tags' if '<' in out else 'ok:plain'))


_HELPER_RENDERERS = {}


def _helper_renderer(o):
    """one properly constructed HtmlRenderer per option set (built through the real constructor, so that whatever instance
    state the renderer keeps is there); the token lists are reset when its context is left"""
    key = (o['html_escape_double_quotes'], o['html_escape_single_quotes'])
    if key not in _HELPER_RENDERERS:
        from mistletoe.html_renderer import HtmlRenderer
        with HtmlRenderer(**o) as rend:
            _HELPER_RENDERERS[key] = rend
    return _HELPER_RENDERERS[key]


def check_escape_text(s, r):
    from mistletoe.html_renderer import HtmlRenderer
    for o in OPTS:
        rend = _helper_renderer(o)
        out = rend.escape_html_text(s)
        r.transitions += 1
        r.validated += 1
        bad = None
        if '<' in out or '>' in out:
            bad = 'escape_html_text leaves angle bracket'
        elif scan_html.check_entities(out, 'text'):
            bad = 'escape_html_text leaves raw &'
        elif o['html_escape_double_quotes'] and '"' in out:
            bad = 'escape_html_text leaves double quote'
        elif o['html_escape_single_quotes'] and "'" in out:
            bad = 'escape_html_text leaves single quote'
        elif html.unescape(out) != s:
            bad = 'escape_html_text not lossless'
        if bad:
            r.fail(dict(helper='escape_html_text', s=s, opts=o), bad, observed=out)


def check_escape_url(s, r):
    from mistletoe.html_renderer import HtmlRenderer
    out = HtmlRenderer.escape_url(s)
    r.transitions += 1
    r.validated += 1
    bad = None
    if any(c in out for c in '"<>\'') or ' ' in out:
        bad = 'escape_url leaves quote, angle bracket or space'
    elif scan_html.check_entities(out, 'url'):
        bad = 'escape_url leaves raw &'
    elif unquote(html.unescape(out)) != unquote(s):
        bad = 'escape_url changes the resource named'
    if bad:
        r.fail(dict(helper='escape_url', s=s), bad, observed=out)


def nonidentity_points():
    from mistletoe.html_renderer import HtmlRenderer
    pts = [chr(c) for c in range(0x80) if HtmlRenderer.escape_url(chr(c)) != chr(c) or chr(c) in '&<>"\'']
    return pts + ['\xe9', '日', '\U0001F600']


def run_job(job):
    r = core.Result()
    kind = job[0]
    if kind == 'words':
        _, name, prefix, k = job
        alpha = ALPH[name]
        for w in core.words_of_job(alpha, prefix, k):
            run_text(r, ''.join(w))
        r.sample(dict(space=name, text=''.join(alpha[i] for i in (prefix or ())) + alpha[0]), 1)
    elif kind == 'edit':
        from checks import c02
        for ex in c02.corpus()[job[1]:job[2]]:
            seen = set()
            for text in spaces.edit1(ex['markdown'], EDIT_TOKENS):
                if text not in seen:
                    seen.add(text)
                    run_text(r, text)
            r.sample(dict(space='edit1', example=ex['example'], variants=len(seen)), 1)
    elif kind == 'roles':
        for key, text in spaces.role_documents([ROLE_STRINGS[job[1]]]):
            run_text(r, text)
        r.sample(dict(space='roles', string=ROLE_STRINGS[job[1]]), 1)
    elif kind in ('leafspell', 'inlinespell'):
        mod = leafspell if kind == 'leafspell' else inlinespell
        for case in mod.cases_of_job(job):
            for ctx in mod.CONTEXTS:
                x = mod.in_context(case, ctx)
                if x is not None:
                    run_text(r, x[0])
        r.sample(dict(space=kind, family=job[1]), 1)
    elif kind == 'helpers':
        core.fresh()
        for cp in range(job[1], job[2]):
            if 0xD800 <= cp <= 0xDFFF:
                continue
            c = chr(cp)
            r.states += 1
            check_escape_text(c, r)
            check_escape_url(c, r)
            # the same code point inside the host part and inside the path of an absolute URL, next to quote and brackets
            if not c.isspace():
                check_escape_url('http://a' + c + 'b"<>.d/x', r)
                check_escape_url('http://h.d/' + c + '"<>', r)
        r.outcome('helpers')
        r.sample(dict(space='helpers', range='U+%04X..U+%04X' % (job[1], job[2] - 1)), 1)
    elif kind == 'pairs':
        core.fresh()
        pts = nonidentity_points()
        for a in pts:
            for b in pts:
                r.states += 1
                check_escape_text(a + b, r)
                check_escape_url(a + b, r)
        r.extra['nonidentity_points'] = len(pts)
        r.outcome('helper-pairs')
    return r


def replay(case):
    core.fresh()
    if 'helper' in case:
        r = core.Result()
        (check_escape_text if case['helper'] == 'escape_html_text' else check_escape_url)(case['s'], r)
        for (kf, sig), (n, fl) in r.failures.items():
            return fl[0]
        return None
    from mistletoe import Document
    from mistletoe.html_renderer import HtmlRenderer
    pht = case['process_html_tokens']
    o = case['opts']
    R = set_aside_class() if pht else HtmlRenderer
    try:
        with R(process_html_tokens=pht, **o) as rend:
            out = rend.render(Document(case['text']))
    except Exception:
        return None
    why = scan_html.scan(out, dq=o['html_escape_double_quotes'], sq=o['html_escape_single_quotes'], strict_content=False)
    if why:
        return dict(sig=why, observed=out)
    return None
