"""C16 - inline tokenization tiles the source; custom tokens obey precedence rules (E1 on intervals + lifecycle)."""
import itertools
from mc import core

ID = 'C16'
TECHNIQUE = ('exhaustive enumeration of all pairs (quick) / pairs, triples and quadruples (thorough) of custom span token '
             'types matching fixed intervals of an inert text: every interval pair on a grid (all 13 Allen relations) x parse '
             'group x precedence x parse_inner, registered through the public renderer API; pair outcomes compared with the '
             'literal resolution rule, all sizes with a tiling invariant; tokens must vanish after the context exits')
ASSUMPTIONS = ['custom tokens are defined through the documented extension points (find returning MatchObj, precedence, '
               'parse_inner, parse_group) and registered via BaseRenderer(*extras)',
               'two recorded deviations from the literal pair rule are attributed by configuration class AND observed outcome']
TEXT = 'abcdefghijkl'
PRECS = {'quick': [(a, b) for a in (4, 5, 6) for b in (4, 5, 6)], 'thorough': [(a, b) for a in range(3, 8) for b in range(3, 8)]}


def describe(tier):
    d = dict(text=TEXT, pair_grid='0..7 (28 intervals x up to 4 parse groups each)', pair_precedences=PRECS[tier],
             parse_inner='all combinations', lifecycle='after __exit__ the text parses to one RawText and both token lists are the defaults')
    if tier == 'quick':
        d['triples'] = 'grid 0..4, parse group whole/inner, precedence {4,6}^3, parse_inner^3'
        d['four_tokens'] = 'an enclosing token over the whole grid 0..4 (parses its inner text) around every triple as above'
    if tier == 'thorough':
        d['triples'] = 'grid 0..5, parse group whole/inner, precedence {4,5,6}^3, parse_inner^3'
        d['quadruples'] = 'grid 0..4, parse group whole/inner, precedence {4,6}^4, parse_inner^4'
    return d


def intervals(hi):
    return [(s, e) for s in range(0, hi) for e in range(s + 1, hi + 1)]


def pgs(iv, full=True):
    s, e = iv
    out = [(s, e)]
    if e - s >= 3:
        out.append((s + 1, e - 1))
    if full and e - s >= 2:
        out.append((s + 1, e))
        out.append((s, e - 1))
    return out


POSITIONS = [-40, -3, -2, -1, 0, 1, 2, 3, 7, 40]


def jobs(tier):
    js = [('pairs', xi, tier) for xi in range(len(intervals(7)))]
    js += [('multi', k) for k in range(len(intervals(6)))]
    js += [('position', pi) for pi in range(len(POSITIONS))]
    js += [('depth3', k) for k in range(len(intervals(5)))]
    js.append(('nested-context',))
    if tier == 'quick':
        iv4 = intervals(4)
        js += [('triples4', a, b) for a in range(len(iv4)) for b in range(len(iv4))]
        # four tokens: one enclosing token (whole text of the grid, parses its inner text) and every triple inside it
        js += [('inP', a, b) for a in range(len(iv4)) for b in range(len(iv4))]
    if tier == 'thorough':
        iv = intervals(5)
        js += [('triples', a, b) for a in range(len(iv)) for b in range(len(iv))]
        iv4 = intervals(4)
        js += [('quads', a, b) for a in range(len(iv4)) for b in range(len(iv4))]
    return js


def mk(name, prec, inner, iv, pg):
    from mistletoe.span_token import SpanToken
    from mistletoe.core_tokens import MatchObj
    s, e = iv
    ps, pe = pg

    class T(SpanToken):
        precedence = prec
        parse_inner = inner
        parse_group = 1

        @classmethod
        def find(cls, string):
            if string != TEXT:
                return []
            return [MatchObj(s, e, (ps, pe, string[ps:pe]))]

        def __init__(self, m):
            self.iv = (m.start(), m.end())
            self.pg = (m.start(1), m.end(1))
            if not inner:
                self.content = m.group(1)
    T.__name__ = name
    T.__qualname__ = name
    return T


def mk_multi(name, prec, matches):
    """a token type whose find() reports several matches, in the given (not necessarily ascending) order"""
    from mistletoe.span_token import SpanToken
    from mistletoe.core_tokens import MatchObj

    class M(SpanToken):
        precedence = prec
        parse_inner = False
        parse_group = 1

        @classmethod
        def find(cls, string):
            if string != TEXT:
                return []
            return [MatchObj(s_, e_, (s_, e_, string[s_:e_])) for s_, e_ in matches]

        def __init__(self, m):
            self.iv = (m.start(), m.end())
            self.pg = (m.start(1), m.end(1))
            self.content = m.group(1)
    M.__name__ = name
    M.__qualname__ = name
    return M


def run_multi(r, k):
    """find() may report its matches in any order: two or three pairwise disjoint matches of one type (every order of
    reporting), alone and next to a second type with one match; a candidate that conflicts with nothing must come out as a
    token, and the result must tile the source"""
    ivs = intervals(6)
    a = ivs[k]
    for b in ivs:
        if not (a[1] <= b[0]):
            continue
        sets = [(a, b)] + [(a, b, c) for c in ivs if b[1] <= c[0]]
        for ms in sets:
            for order in itertools.permutations(ms):
                for other in [None] + ivs:
                    classes = [mk_multi('M', 5, order)]
                    if other is not None:
                        classes.append(mk('Y', 5, False, other, other))
                    names = [c.__name__ for c in classes]
                    case = dict(multi=True, matches_in_reported_order=[list(x) for x in order], other=list(other) if other else None)
                    r.states += 1
                    r.transitions += 1
                    try:
                        inside, lifecycle_ok, order_ok = parse_with(classes)
                    except Exception as e:
                        r.fail(case, core.exc_sig(e), repr(e)[:200])
                        continue
                    r.validated += 1
                    p = tiling_problem(list(inside), 0, len(TEXT), names)
                    if p:
                        r.fail(case, 'tiling:' + p, observed=repr(shape(list(inside), names)))
                        continue
                    got = sorted(t.iv for t in inside if type(t).__name__ == 'M')
                    must = sorted(m for m in ms if other is None or m[1] <= other[0] or other[1] <= m[0])
                    if any(m not in got for m in must):
                        r.fail(case, 'conflict-free-match-dropped', expected=[list(m) for m in must], observed=[list(m) for m in got])
                    r.outcome('multi:%d' % len(got))
    r.sample(dict(kind='one type, several matches reported in any order', first=list(a)), 1)


def run_position(r, pos):
    """add_token(cls, position) inserts like list.insert (negative positions count from the end); the type that is earlier in
    the list wins a tie"""
    from mistletoe import Document, span_token
    from mistletoe.html_renderer import HtmlRenderer
    for xi in intervals(4):
        for yi in intervals(4):
            for px, py in ((5, 5), (4, 6), (6, 4)):
                X = mk('X', px, False, xi, xi)
                Y = mk('Y', py, False, yi, yi)
                case = dict(position=pos, tokens=[dict(name='X', interval=list(xi), precedence=px), dict(name='Y', interval=list(yi), precedence=py)])
                core.fresh()
                r.states += 1
                r.transitions += 1

                class R(HtmlRenderer):
                    def __init__(self):
                        super().__init__(X, process_html_tokens=False)

                    def render_x(self, t):
                        return ''
                try:
                    with R():
                        before = [t.__name__ for t in span_token._token_types]
                        span_token.add_token(Y, pos)
                        after = [t.__name__ for t in span_token._token_types]
                        # a type put behind the fallback token (which tokenize() splits off) is outside the rule
                        inside = Document(TEXT).children[0].children if after[-1] == 'RawText' else None
                except Exception as e:
                    r.fail(case, core.exc_sig(e), repr(e)[:200])
                    continue
                want_order = list(before)
                want_order.insert(pos, 'Y')
                r.validated += 1
                if after != want_order:
                    r.fail(case, 'add_token-position-not-list-insert', expected=want_order, observed=after)
                    continue
                if 'RawText' != after[-1]:
                    continue        # the type was put behind the fallback token (which is split off): outside the rule
                xs = dict(name='X', iv=xi, pg=xi, prec=px, inner=False)
                ys = dict(name='Y', iv=yi, pg=yi, prec=py, inner=False)
                first, second = (xs, ys) if after.index('X') < after.index('Y') else (ys, xs)
                want = pair_model(first, second)
                got = observe_pair(shape(list(inside), ['X', 'Y']))
                r.validated += 1
                r.outcome('position:' + got[0])
                if got != want:
                    r.fail(case, 'pair-resolution-differs-from-rule:%s->%s' % (want[0], got[0]), kf=classify_pair(first, second, want, got),
                           expected=list(want), observed=list(got))
    r.sample(dict(kind='add_token position', position=pos), 1)


def run_depth3(r, k):
    """two candidates two levels below a top-level token (outer > middle > the pair): the pair rule applies to them exactly as at top
    level, and the enclosing tokens - which conflict with nothing - stay"""
    ivs = [(s_ + 2, e_ + 2) for s_, e_ in intervals(5)]          # inside the middle token's parse group 2..7
    xi = ivs[k]
    W = dict(name='W', iv=(0, 9), pg=(1, 8), prec=5, inner=True)
    V = dict(name='V', iv=(1, 8), pg=(2, 7), prec=5, inner=True)
    for xp in pgs(xi, full=False):
        for yi in ivs:
            for yp in pgs(yi, full=False):
                for px, py in ((5, 5), (4, 6), (6, 4)):
                    for ix in (True, False):
                        for iy in (True, False):
                            X = dict(name='X', iv=xi, pg=xp, prec=px, inner=ix)
                            Y = dict(name='Y', iv=yi, pg=yp, prec=py, inner=iy)
                            specs = [W, V, X, Y]
                            names = [s_['name'] for s_ in specs]
                            case = dict(tokens=[dict(name=s_['name'], interval=list(s_['iv']), parse_group=list(s_['pg']), precedence=s_['prec'], parse_inner=s_['inner']) for s_ in specs], depth3=True)
                            r.states += 1
                            r.transitions += 1
                            try:
                                inside, lifecycle_ok, order_ok = parse_with([mk(s_['name'], s_['prec'], s_['inner'], s_['iv'], s_['pg']) for s_ in specs])
                            except Exception as e:
                                r.fail(case, core.exc_sig(e), repr(e)[:200])
                                continue
                            r.validated += 1
                            p = tiling_problem(list(inside), 0, len(TEXT), names)
                            if p:
                                r.fail(case, 'tiling:' + p, observed=repr(shape(list(inside), names)))
                                continue
                            sh = shape(list(inside), names)
                            if len(sh) != 1 or sh[0][0] != 'W' or len(sh[0][1]) != 1 or sh[0][1][0][0] != 'V':
                                r.fail(case, 'depth3:enclosing-token-missing', expected=['W', ['V']], observed=repr(sh))
                                continue
                            want = pair_model(X, Y)
                            got = observe_pair(sh[0][1][0][1])
                            r.outcome('depth3-' + got[0])
                            if got != want:
                                r.fail(case, 'depth3-pair-resolution-differs-from-rule:%s->%s' % (want[0], got[0]), kf=classify_pair(X, Y, want, got),
                                       expected=list(want), observed=list(got))
    r.sample(dict(kind='pair two levels below a top-level token', first=list(xi)), 1)


def run_nested_context(r):
    """the custom tokens of an inner renderer context are gone once that context is left, also while an outer context is open"""
    from mistletoe import Document, span_token
    from mistletoe.html_renderer import HtmlRenderer
    for xi in intervals(3):
        for yi in intervals(3):
            X = mk('X', 5, False, xi, xi)
            Y = mk('Y', 5, False, (yi[0] + 4, yi[1] + 4), (yi[0] + 4, yi[1] + 4))
            core.fresh()
            r.states += 1
            r.transitions += 1

            class RA(HtmlRenderer):
                def __init__(self):
                    super().__init__(X, process_html_tokens=False)

                def render_x(self, t):
                    return ''

            class RB(HtmlRenderer):
                def __init__(self):
                    super().__init__(Y, process_html_tokens=False)

                def render_y(self, t):
                    return ''
            case = dict(nested_context=True, outer=list(xi), inner=[yi[0] + 4, yi[1] + 4])
            try:
                with RA():
                    with RB():
                        both = [type(t).__name__ for t in Document(TEXT).children[0].children]
                    after_inner = [type(t).__name__ for t in Document(TEXT).children[0].children]
                after_outer = [type(t).__name__ for t in Document(TEXT).children[0].children]
            except Exception as e:
                r.fail(case, core.exc_sig(e), repr(e)[:200])
                continue
            r.validated += 1
            if 'Y' not in both:
                r.fail(case, 'inner-token-not-recognised-inside-its-context', observed=both)
            if 'Y' in after_inner:
                r.fail(case, 'custom-tokens-survive-inner-context-exit', observed=after_inner)
            if after_outer != ['RawText']:
                r.fail(case, 'custom-tokens-survive-context-exit', observed=after_outer)
            r.outcome('nested-context')
    r.sample(dict(kind='nested renderer contexts'), 1)


def parse_with(classes):
    """register classes (first = earliest in the token list) through a renderer, parse TEXT inside and after the context"""
    from mistletoe import Document, span_token, block_token
    from mistletoe.html_renderer import HtmlRenderer
    core.fresh()
    default_span = list(span_token._token_types)
    default_block = list(block_token._token_types)

    class R(HtmlRenderer):
        def __init__(self):
            super().__init__(*reversed(classes), process_html_tokens=False)   # add_token inserts at position 1
    for c in classes:
        setattr(R, 'render_' + c.__name__.lower(), lambda self, t: '')
    with R():
        order = [t.__name__ for t in span_token._token_types]
        inside = Document(TEXT).children[0].children
    after = Document(TEXT).children[0].children
    lifecycle_ok = (len(after) == 1 and type(after[0]).__name__ == 'RawText' and after[0].content == TEXT
                    and span_token._token_types == default_span and block_token._token_types == default_block)
    names = [c.__name__ for c in classes]
    listed = [n for n in order if n in names]
    return inside, lifecycle_ok, listed == names


def tiling_problem(tokens, lo, hi, names):
    """None or reason: tokens must tile TEXT[lo:hi] in order"""
    cur = lo
    for t in tokens:
        n = type(t).__name__
        if n == 'RawText':
            if TEXT[cur:cur + len(t.content)] != t.content or not t.content:
                return 'raw text does not continue the source at %d' % cur
            cur += len(t.content)
        elif n in names:
            s, e = t.iv
            ps, pe = t.pg
            if s < cur:
                return 'token overlaps its predecessor or is out of order'
            if s > cur:
                return 'source text between tokens lost'
            if e > hi:
                return 'token reaches outside its parent\'s parse group'
            if t.children is not None and type(t).parse_inner:
                p = tiling_problem(list(t.children), ps, pe, names)
                if p:
                    return p
            else:
                if getattr(t, 'content', None) != TEXT[ps:pe]:
                    return 'content of a non-parsing token differs from its parse group'
            cur = e
        else:
            return 'unexpected token ' + n
    if cur != hi:
        return 'source text after the last token lost'
    return None


def shape(tokens, names):
    out = []
    for t in tokens:
        n = type(t).__name__
        if n in names:
            kids = shape(list(t.children), names) if (t.children is not None and type(t).parse_inner) else ()
            out.append((n, kids))
    return tuple(out)


def pair_model(x, y):
    """literal rule of the property; x is earlier in the token list. -> ('both',) ('nest', outer, inner) ('only', name)"""
    first, second = (x, y) if (x['iv'][0], 0) <= (y['iv'][0], 1) else (y, x)
    if first['iv'][1] <= second['iv'][0]:
        return ('both',)

    def inside(a, b):
        return b['pg'][0] <= a['iv'][0] and a['iv'][1] <= b['pg'][1]
    if inside(second, first):
        return ('nest', first['name'], second['name']) if first['inner'] else ('only', first['name'])
    if inside(first, second):
        return ('nest', second['name'], first['name']) if second['inner'] else ('only', second['name'])
    if second['prec'] > first['prec']:
        return ('only', second['name'])
    return ('only', first['name'])


def observe_pair(sh):
    if len(sh) == 2:
        return ('both',)
    if len(sh) == 1:
        if sh[0][1]:
            return ('nest', sh[0][0], sh[0][1][0][0])
        return ('only', sh[0][0])
    return ('none',)


def classify_pair(x, y, want, got):
    first, second = (x, y) if (x['iv'][0], 0) <= (y['iv'][0], 1) else (y, x)
    by_precedence = ('only', second['name']) if second['prec'] > first['prec'] else ('only', first['name'])
    if first['iv'][0] == second['iv'][0] and want[0] in ('nest', 'only') and got == by_precedence:
        # same start, the one listed first lies inside the other's parse group, precedence decided instead
        if second['pg'][0] <= first['iv'][0] and first['iv'][1] <= second['pg'][1]:
            return 'KF-C16-equal-start-inside-parse-group'
    if (second['iv'][0] >= first['pg'][1] and second['iv'][1] <= first['iv'][1] and second['prec'] > first['prec']
            and want == ('only', second['name']) and got == ('only', first['name'])):
        return 'KF-C16-match-in-closing-delimiter-discarded'
    return None


def run_config(r, specs, judge_pair):
    names = [s['name'] for s in specs]
    classes = [mk(s['name'], s['prec'], s['inner'], s['iv'], s['pg']) for s in specs]
    r.states += 1
    r.transitions += 1
    case = dict(tokens=[dict(name=s['name'], interval=list(s['iv']), parse_group=list(s['pg']), precedence=s['prec'], parse_inner=s['inner']) for s in specs])
    try:
        inside, lifecycle_ok, order_ok = parse_with(classes)
    except Exception as e:
        r.fail(case, core.exc_sig(e), repr(e)[:200])
        return
    if not order_ok:
        raise RuntimeError('harness: token list order is not the registration order')
    r.validated += 1
    if not lifecycle_ok:
        r.fail(case, 'custom-tokens-survive-context-exit')
    p = tiling_problem(list(inside), 0, len(TEXT), names)
    if p:
        r.fail(case, 'tiling:' + p, observed=repr(shape(list(inside), names)))
        return
    sh = shape(list(inside), names)
    if judge_pair:
        want = pair_model(specs[0], specs[1])
        got = observe_pair(sh)
        r.validated += 1
        r.outcome(got[0])
        if got != want:
            r.fail(case, 'pair-resolution-differs-from-rule:%s->%s' % (want[0], got[0]), kf=classify_pair(specs[0], specs[1], want, got),
                   expected=list(want), observed=list(got))
    else:
        r.outcome('top=%d' % len(sh))
        if len(specs) == 3:
            judge_nested_pair(r, specs, sh, case)


def judge_nested_pair(r, specs, sh, case):
    """two candidates inside the parse group of a third (which parses its inner text): the pair rule applies to them as
    children of the third, exactly as it does at top level"""
    for pi, P in enumerate(specs):
        others = [s for i, s in enumerate(specs) if i != pi]
        if not P['inner']:
            continue
        if not all(P['pg'][0] <= o['iv'][0] and o['iv'][1] <= P['pg'][1] and P['iv'][0] < o['iv'][0] for o in others):
            continue
        want = pair_model(others[0], others[1])
        if len(sh) != 1 or sh[0][0] != P['name']:
            r.validated += 1
            r.fail(case, 'nested-pair:enclosing-token-missing', expected=[P['name']], observed=repr(sh))
            return
        got = observe_pair(sh[0][1])
        r.validated += 1
        r.outcome('nested-' + got[0])
        if got != want:
            r.fail(case, 'nested-pair-resolution-differs-from-rule:%s->%s' % (want[0], got[0]),
                   kf=classify_pair(others[0], others[1], want, got), expected=list(want), observed=list(got))
        return


def run_job(job):
    r = core.Result()
    kind = job[0]
    if kind == 'multi':
        run_multi(r, job[1])
        return r
    if kind == 'depth3':
        run_depth3(r, job[1])
        return r
    if kind == 'nested-context':
        run_nested_context(r)
        return r
    if kind == 'position':
        run_position(r, POSITIONS[job[1]])
        return r
    if kind == 'pairs':
        precs2 = PRECS[job[2]]
        ivs = intervals(7)
        xi = ivs[job[1]]
        for xp in pgs(xi):
            for yi in ivs:
                for yp in pgs(yi):
                    for px, py in precs2:
                        for ix in (True, False):
                            for iy in (True, False):
                                run_config(r, [dict(name='X', iv=xi, pg=xp, prec=px, inner=ix),
                                               dict(name='Y', iv=yi, pg=yp, prec=py, inner=iy)], True)
        r.sample(dict(tokens=[dict(name='X', interval=list(xi), parse_group=list(pgs(xi)[-1]), precedence=5, parse_inner=True),
                              dict(name='Y', interval=[2, 6], parse_group=[3, 5], precedence=6, parse_inner=False)]), 1)
    elif kind == 'inP':
        ivs = intervals(4)
        a, b = ivs[job[1]], ivs[job[2]]
        P = dict(name='W', iv=(0, 4), pg=(0, 4), prec=5, inner=True)
        for c in ivs:
            chosen = (a, b, c)
            for pg in itertools.product(*[pgs(iv, full=False) for iv in chosen]):
                for pr in itertools.product((4, 6), repeat=3):
                    for inn in itertools.product((True, False), repeat=3):
                        run_config(r, [P] + [dict(name='XYZ'[i], iv=chosen[i], pg=pg[i], prec=pr[i], inner=inn[i]) for i in range(3)], False)
        r.sample(dict(kind='three tokens inside an enclosing one', first_two_intervals=[list(a), list(b)]), 1)
    else:
        hi = 5 if kind == 'triples' else 4
        ivs = intervals(hi)
        n = 4 if kind == 'quads' else 3
        precs = (4, 5, 6) if kind == 'triples' else (4, 6)
        a, b = ivs[job[1]], ivs[job[2]]
        for rest in itertools.product(ivs, repeat=n - 2):
            chosen = (a, b) + rest
            for pg in itertools.product(*[pgs(iv, full=False) for iv in chosen]):
                for pr in itertools.product(precs, repeat=n):
                    for inn in itertools.product((True, False), repeat=n):
                        run_config(r, [dict(name='XYZW'[i], iv=chosen[i], pg=pg[i], prec=pr[i], inner=inn[i]) for i in range(n)], False)
        r.sample(dict(kind=kind, first_two_intervals=[list(a), list(b)]), 1)
    return r


def replay(case):
    if case.get('nested_context'):
        r = core.Result()
        run_nested_context(r)
        for (kf, sig), (n, fl) in r.failures.items():
            for f in fl:
                if f['case'] == case:
                    return f
        for (kf, sig), (n, fl) in r.failures.items():
            return fl[0]
        return None
    if case.get('depth3'):
        r = core.Result()
        xi = tuple(case['tokens'][2]['interval'])
        run_depth3(r, [(s_ + 2, e_ + 2) for s_, e_ in intervals(5)].index(xi))
        for (kf, sig), (n, fl) in r.failures.items():
            for f in fl:
                if f['case']['tokens'] == case['tokens']:
                    return f
        for (kf, sig), (n, fl) in r.failures.items():
            if not kf:
                return fl[0]
        return None
    if case.get('multi') or 'position' in case:
        r = core.Result()
        if case.get('multi'):
            first = tuple(sorted(tuple(x) for x in case['matches_in_reported_order'])[0])
            run_multi(r, intervals(6).index(first))
            want = [case['matches_in_reported_order'], case['other']]
            key = lambda f: [f['case']['matches_in_reported_order'], f['case']['other']]
        else:
            run_position(r, case['position'])
            want = case['tokens']
            key = lambda f: f['case']['tokens']
        for (kf, sig), (n, fl) in r.failures.items():
            for f in fl:
                if key(f) == want:
                    return f
        for (kf, sig), (n, fl) in r.failures.items():
            if not kf:
                return fl[0]
        return None
    specs = [dict(name=t['name'], iv=tuple(t['interval']), pg=tuple(t['parse_group']), prec=t['precedence'], inner=t['parse_inner'])
             for t in case['tokens']]
    r = core.Result()
    run_config(r, specs, len(specs) == 2)
    for (kf, sig), (n, fl) in r.failures.items():
        return fl[0]
    return None
