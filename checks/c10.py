"""C10 - reflowing to a maximum line length preserves meaning and honours the limit (E2 paragraphs x all L)."""
import re
import itertools
from mc import core, trees, leafspell, inlinespell

ID = 'C10'
TECHNIQUE = ('exhaustive enumeration of all paragraphs of 1-2/3 (sub-menu 3/4) inline items out of an 11-item menu under every '
             'container prefix chain of depth <= 2/3, with every bystander block kind, x every maximum line length 1..120; '
             'four oracles per case (whitespace-normalised HTML equal, bystander lines untouched, no breakable space in an '
             'over-long line, reflow idempotent)')
ASSUMPTIONS = ['breakable space = a space outside code spans, inline link destinations/titles, image descriptions, autolinks and '
               '<...> destinations (spaces inside those are never counted against the renderer); in link reference definitions the '
               'spaces of label and title count as breakable (a definition may span lines there)',
               'words of the generated prose cannot be mistaken for block markers at the start of a line (the property\'s domain)']

ITEMS = ['ab', 'abcdefghijklmnopqrstuvwxyz0123456789', '*em ph*', '**st rong**', '`co de`', '[li nk](/u "ti tle")',
         '![im g](/i)', '<http://x.y/z>', '[re f][r]', 'p  \nq', 'p\\\nq', "<b\nclass='k'\nid='i'>"]
SUB = [0, 1, 2, 5, 9]
REFDEF = '[r]: /d "D"'
BYSTANDERS = {
    'atx': ['## a long heading that is certainly longer than most limits ##'],
    'table': ['| col one | col two |', '| ------- | ------: |', '| a b c d | e f g h |'],
    'fence': ['```py', 'code line that is long and has   spaces', '```'],
    'indented': ['    indented code with   spaces in it'],
    'html': ['<div class="x">', 'raw html that is long enough to wrap', '</div>'],
    'setext': ['setext heading words that may wrap', '==='],
    'linkdef': ['[lab el]: /d "some title made of words"'],
    'linkdef2': ["[x]: </long destination> 'title one two three four'"],
    # '-glued': no blank line between the definition and the paragraph that follows it
    'linkdef-glued': ["[lab el]: /d 'some title made of words'"],
    'linkdef2-glued': ['[x]: </long destination> "title one two three four"', "[y]: /e (another title)"],
}
UNTOUCHED = ['atx', 'table', 'fence', 'indented', 'html']
BOUNDS = {'quick': dict(items=3, sub_items=3, depth=2), 'thorough': dict(items=3, sub_items=4, depth=3)}
LMAX = 120
MARKER_WORD = re.compile(r'^(#{1,6}|=+|-+|[-+*]|>.*|\d{1,9}[.)]|\|.*|.*\||`{3,}.*|~{3,}.*)$')


def describe(tier):
    b = BOUNDS[tier]
    return dict(items=ITEMS, max_items=b['items'], sub_menu=[ITEMS[i] for i in SUB], max_items_sub_menu=b['sub_items'],
                container_depth=b['depth'], containers=['quote', 'bullet item', 'ordered item'], bystanders=list(BYSTANDERS),
                max_line_length='1..%d' % LMAX)


def chains(depth):
    for d in range(0, depth + 1):
        for c in itertools.product('qbo', repeat=d):
            yield ''.join(c)
    # a wide ordered marker ("10. ", prefix width 4) alone and next to each other container
    for c in ('w', 'wq', 'wb', 'qw', 'bw', 'ww'):
        yield c
    # 'n': the paragraph is the SECOND item ("10. ") of an ordered list whose first item ("9. ab") has a narrower marker
    for c in ('n', 'qn', 'nq', 'bn', 'nb'):
        yield c
    # 'p' / 'P': markers followed by more than one space ("-   ", "1.  "): the content offset is wider than marker + 1
    for c in ('p', 'P', 'qp', 'pq', 'bp', 'pb', 'pP'):
        yield c
    # 'i' / 'I' / 'J': the marker itself is indented by one to three columns relative to its container (" - ", "   * ", "  7) ")
    for c in ('i', 'I', 'J', 'qi', 'iq', 'bI', 'Ib', 'iJ'):
        yield c


def jobs(tier):
    b = BOUNDS[tier]
    js = []
    for ch in chains(b['depth']):
        js.append(('paras', ch, b['items'], b['sub_items'], None))
        for by in BYSTANDERS:
            js.append(('paras', ch, 1, 0, by))
    nt = 3 if tier == 'quick' else 4
    for n in range(1, nt + 1):
        ns = 1 if n < 3 else (16 if n == 3 else 128)
        js += [('trees', n, 2 if tier == 'quick' else 3, sh, ns, None) for sh in range(ns)]
    # a definition without a title directly followed by a paragraph whose first words read as a title once they stand on a line of their own
    js += [('titlecap', ch) for ch in chains(b['depth'])]
    # every spelling of every leaf block in six contexts (thorough; quick: the two container contexts)
    js += [j + (tier,) for j in leafspell.jobs()]
    # every spelling of every inline construct inside a paragraph that is re-flowed (meaning and idempotence under every L)
    js += [j + (tier,) for j in inlinespell.jobs()]
    return js


def embed(lines, chain):
    """put lines under the container chain (outermost first); returns (lines, [prefix per line])"""
    prefixes = [''] * len(lines)
    for c in reversed(chain):
        if c == 'q':
            lines = ['> ' + l if l else '>' for l in lines]
            prefixes = ['> ' + p for p in prefixes]
        elif c == 'n':
            lines = ['9. ab'] + [('10. ' if i == 0 else '    ') + l if l else l for i, l in enumerate(lines)]
            prefixes = [''] + [('10. ' if i == 0 else '    ') + p for i, p in enumerate(prefixes)]
        else:
            m = {'b': '- ', 'w': '10. ', 'o': '1. ', 'p': '-   ', 'P': '1.  ', 'i': ' - ', 'I': '   * ', 'J': '  7) '}[c]
            lines = [(m if i == 0 else ' ' * len(m)) + l if l else l for i, l in enumerate(lines)]
            prefixes = [(m if i == 0 else ' ' * len(m)) + p for i, p in enumerate(prefixes)]
    return lines, prefixes


def build_doc(items, chain, bystander, where='before'):
    """-> (markdown, bystander lines exactly as written)"""
    para = ' '.join(ITEMS[i] for i in items).split('\n')
    inner = list(para)
    by_lines = []
    glued = bool(bystander) and bystander.endswith('-glued')
    if bystander and where == 'inside':
        inner = BYSTANDERS[bystander] + ([] if glued else ['']) + inner
    body, _ = embed(inner, chain)
    if bystander and where == 'inside':
        by_lines = body[:len(BYSTANDERS[bystander])]
    lines = []
    if bystander and where == 'before':
        lines += BYSTANDERS[bystander] + ([] if glued else [''])
        by_lines = list(BYSTANDERS[bystander])
    lines += body
    if 8 in items:
        lines += ['', REFDEF]
    return '\n'.join(lines) + '\n', by_lines


def html_of(m):
    from mistletoe import Document
    from mistletoe.html_renderer import HtmlRenderer
    core.fresh()
    with HtmlRenderer() as r:
        return r.render(Document(m))


PRE = re.compile(r'(<pre>.*?</pre>)', re.S)


def ws_norm(h):
    parts = PRE.split(h)
    return ''.join(p if p.startswith('<pre>') else re.sub(r'\s+', ' ', p) for p in parts)


UNBREAKABLE = [re.compile(p) for p in (r'`[^`]*`', r'!\[[^\]]*\]\([^)]*\)', r'\]\([^)]*\)', r'\]\[[^\]]*\]', r'<[^>]*>')]


def breakable_space(line_after_prefix):
    s = line_after_prefix
    for p in UNBREAKABLE:
        s = p.sub('X', s)
    return ' ' in s.strip()


PREFIX = re.compile(r'^(?:> ?|[-+*] |\d+[.)] | +)*')


def check_doc(r, m, bystander, case_base, by_lines=(), length_clause=True, kf_for=None):
    """render with every L (parse once), judge every distinct output"""
    from mistletoe import Document
    from mistletoe.markdown_renderer import MarkdownRenderer
    try:
        h_ref = ws_norm(html_of(m))
    except Exception:
        r.skip('input cannot be rendered (C01)')
        return
    core.fresh()
    outs = {}
    try:
        with core.time_limit(30):
            with MarkdownRenderer() as rend:
                doc = Document(m)
                for L in range(1, LMAX + 1):
                    rend.max_line_length = L
                    outs.setdefault(rend.render(doc), []).append(L)
    except core.EvalTimeout:
        r.fail(dict(case_base, L=None), 'timeout')
        return
    except Exception as e:
        r.fail(dict(case_base, L=None), core.exc_sig(e), repr(e)[:200])
        return
    r.transitions += LMAX
    for w, Ls in outs.items():
        r.validated += 1
        f = judge(m, w, Ls, h_ref, bystander, by_lines, length_clause)
        if f:
            kf = classify(m, f) or (kf_for(f) if kf_for else None)
            r.fail(dict(case_base, L=f.get('L', Ls[0]), kf=kf), f['sig'], f.get('detail', ''), kf=kf, expected=f.get('expected'), observed=f.get('observed'))
    r.outcome('distinct-layouts=%d' % min(len(outs), 12))


EMPTY_ITEM = re.compile(r'^(?:> ?|(?:[-+*]|\d{1,9}[.)]) +| )*(?:[-+*]|\d{1,9}[.)]) ?$', re.M)


def inline_finding(case):
    """class predicates + symptoms of the two recorded findings that the inline spelling families reach"""
    fam, md, html, label = case
    if fam == 'escape-not' and label.get('ch') == ' ' or fam == 'break' and md.endswith('\\'):
        # a word ending in a literal backslash: once the reflow puts it at the end of a line it reads as a hard line break
        return lambda f: 'KF-C10-word-ending-in-backslash' if (f['sig'] == 'reflow-changes-meaning' and (f.get('observed') or '').count('<br />') > (f.get('expected') or '').count('<br />')) else None
    if fam == 'code':
        c = label['content'].replace('\n', ' ')
        inner = c[1:-1] if (len(c) >= 2 and c[0] == ' ' and c[-1] == ' ' and c.strip(' ')) else c
        if inner != inner.strip(' ') or '  ' in inner:
            # a code span whose content starts/ends with a space of its own (beyond the padding) or holds a run of spaces: the
            # reflow treats these spaces as breakable and collapses them
            def sym(f):
                strip = lambda h: re.sub(r'<code>(.*?)</code>', lambda m: '<code>' + m.group(1).replace(' ', '') + '</code>', h or '')
                if f['sig'] in ('reflow-changes-meaning',) and strip(f.get('observed')) == strip(f.get('expected')):
                    return 'KF-C10-code-span-spaces-collapsed'
                return None
            return sym
    return None


def classify(m, f):
    """the recorded C09 finding (blank line after an empty list item is lost when rendering back to Markdown) shows here
    too; it is attributed only if the input has an empty list item AND the rendering *without* any line limit already
    has the same fault (so the reflow logic is not what fails)"""
    if f['sig'] not in ('reflow-changes-meaning', 'reflow-not-idempotent') or not EMPTY_ITEM.search(m):
        return None
    from mistletoe import Document
    from mistletoe.markdown_renderer import MarkdownRenderer
    try:
        core.fresh()
        with MarkdownRenderer() as rend:
            w0 = rend.render(Document(m))
        core.fresh()
        with MarkdownRenderer() as rend:
            w00 = rend.render(Document(w0))
        if ws_norm(html_of(w0)) != ws_norm(html_of(m)) or w00 != w0:
            return 'KF-C10-blank-line-after-empty-list-item-lost'
    except Exception:
        return None
    return None


def judge(m, w, Ls, h_ref, bystander, by_lines=(), length_clause=True):
    by_lines = list(by_lines)
    from mistletoe import Document
    from mistletoe.markdown_renderer import MarkdownRenderer
    # (1) same document up to soft line breaks
    try:
        h = ws_norm(html_of(w))
    except Exception as e:
        return dict(sig='reflowed-text-cannot-be-parsed', detail=repr(e)[:200], observed=w, L=Ls[0])
    if h != h_ref:
        return dict(sig='reflow-changes-meaning', expected=h_ref, observed=h, L=Ls[0])
    # (2) blocks that must not be re-broken
    wl = w.split('\n')
    keep = by_lines if bystander in UNTOUCHED else []
    if keep:
        found = any(wl[i:i + len(keep)] == keep for i in range(len(wl)))
        if not found:
            return dict(sig='block-was-rebroken:' + bystander, expected=keep, observed=w, L=Ls[0])
    # (3) over-long lines hold no breakable space
    skip = set(keep)
    for L in ((Ls[0], Ls[-1]) if length_clause else ()):
        for line in wl:
            if len(line) <= L or line in skip:
                continue
            rest = PREFIX.sub('', line)
            if breakable_space(rest):
                return dict(sig='over-long-line-with-breakable-space', detail='L=%d line=%r' % (L, line), observed=w, L=L)
    # (4) idempotent
    for L in (Ls[0], Ls[-1]):
        core.fresh()
        with MarkdownRenderer(max_line_length=L) as rend:
            w2 = rend.render(Document(w))
        if w2 != w:
            return dict(sig='reflow-not-idempotent', expected=w, observed=w2, L=L)
    return None


TITLECAP_DEFS = ['[lab]: /d', '[lab]: </d e>', '[lab]:  /d  ']
TITLECAP_FIRST = ['w0', '"w1"', "'w1'", '(w1)', '"w1', 'w1"', '"w1 w2"', '("w1")', '"" w1']
TITLE_LIKE = re.compile(r'^("[^"]*"|\'[^\']*\'|\([^()]*\))(\s|$)')


def titlecap_finding(first):
    """class: the paragraph glued to a title-less definition begins with a complete title form; symptom: the re-flowed document's HTML is
    the input's HTML minus exactly that token (it went into the definition; a non-empty one shows as the links' title attribute)"""
    mo = TITLE_LIKE.match(first + ' ')
    if not mo:
        return None
    toks = [mo.group(1), mo.group(1).replace('"', '&quot;')]

    def sym(f):
        if f['sig'] not in ('reflow-changes-meaning', 'reflow-not-idempotent') or not f.get('expected') or not f.get('observed'):
            return None
        if any(re.sub(r' title="[^"]*"', '', f['observed']) == f['expected'].replace(tok + ' ', '', 1) != f['expected'] for tok in toks):
            return 'KF-C10-title-captured-after-definition'
        return None
    return sym


def run_titlecap(r, chain):
    for d in TITLECAP_DEFS:
        for first in TITLECAP_FIRST:
            for glued in (True, False):
                inner = [d] + ([] if glued else ['']) + [first + ' w3 w4 [lab]']
                body, _ = embed(inner, chain)
                m = '\n'.join(body) + '\n'
                r.states += 1
                check_doc(r, m, None, dict(markdown=m, bystander=None, by_lines=[], length_clause=False, titlecap=[first, glued]), (), length_clause=False,
                          kf_for=titlecap_finding(first) if glued else None)
    r.sample(dict(space='definition then title-like words', chain=chain), 1)
    return r


def run_job(job):
    r = core.Result()
    if job[0] == 'trees':
        # whole generated documents (every block kind, nested): meaning and idempotence under every L; the length clause
        # is not judged here (tables, code and HTML lines are full of spaces that must not be broken)
        _, n, depth, sh, ns, _x = job
        for i, blocks in enumerate(trees.all_docs(n, depth)):
            if i % ns == sh:
                m = trees.to_markdown(blocks, trees.DEFAULTS)[0]
                r.states += 1
                check_doc(r, m, None, dict(markdown=m, bystander=None, by_lines=[], length_clause=False), (), length_clause=False)
        r.sample(dict(space='generated trees', nodes=n), 1)
        return r
    if job[0] == 'titlecap':
        return run_titlecap(r, job[1])
    if job[0] == 'inlinespell':
        ctxs = ['paragraph-mid', 'tight list item', 'block quote', 'emphasis'] if job[3] == 'thorough' else ['block quote', 'tight list item']
        for case in inlinespell.cases_of_job(job[:3]):
            if (case[0] in ('brk', 'charref', 'charref-not') or any(MARKER_WORD.match(wd) for wd in case[1].split())
                    or '\\' in case[3].get('dest', '') + case[3].get('title', '') or (case[0] == 'prefix' and case[3]['prefix'] is None)):
                # hard/soft breaks move by design; a character reference may stand for white space; marker-like words are outside the
                # domain; backslash escapes in destinations/titles are lost by the renderer with or without a limit (recorded under C09)
                r.skip('inline case outside the domain of the reflow property')
                continue
            kf_for = inline_finding(case)
            for ctx in ctxs:
                x = inlinespell.in_context(case, ctx)
                if x is None:
                    continue
                r.states += 1
                check_doc(r, x[0], None, dict(markdown=x[0], bystander=None, by_lines=[], length_clause=False), (), length_clause=False, kf_for=kf_for)
        r.sample(dict(space='inline spellings', family=job[1]), 1)
        return r
    if job[0] == 'leafspell':
        ctxs = leafspell.CONTEXTS if job[3] == 'thorough' else ['in-quote', 'in-list-item']
        for case in leafspell.cases_of_job(job[:3]):
            if case[0] == 'lazy' and any(l.startswith(('    ', '\t', ' \t')) for l in case[1][1:]):
                r.skip('continuation line indented >= 4 that reads as a block marker once re-flowed (outside the property\'s domain)')
                continue
            if case[0] in ('para', 'setext', 'atx-not', 'hr-not', 'table-not') and any(
                    MARKER_WORD.match(wd) for l in case[1][:(-1 if case[0] == 'setext' else None)] for wd in l.split()[0 if l is not case[1][0] else 1:]):
                r.skip('a prose word that reads as a block marker once re-flowed to the start of a line (outside the property\'s domain)')
                continue
            for ctx in ctxs:
                x = leafspell.in_context(case, ctx)
                if x is None:
                    continue
                r.states += 1
                check_doc(r, x[0], None, dict(markdown=x[0], bystander=None, by_lines=[], length_clause=False), (), length_clause=False)
        r.sample(dict(space='leaf spellings', family=job[1]), 1)
        return r
    _, chain, k, ksub, by = job
    seqs = []
    n = len(ITEMS)
    for L in range(1, k + 1):
        seqs += list(itertools.product(range(n), repeat=L))
    for L in range(k + 1, ksub + 1):
        seqs += list(itertools.product(SUB, repeat=L))
    for items in seqs:
        wheres = ['before'] + (['inside'] if by and chain and 'n' not in chain else []) if by else [None]
        for where in wheres:
            m, by_lines = build_doc(items, chain, by, where or 'before')
            r.states += 1
            check_doc(r, m, by, dict(markdown=m, bystander=by, by_lines=by_lines), by_lines)
    r.sample(dict(markdown=build_doc((2, 1), chain, by)[0], chain=chain), 1)
    return r


def replay(case):
    m = case['markdown']
    L = case.get('L')
    from mistletoe import Document
    from mistletoe.markdown_renderer import MarkdownRenderer
    if L is None:
        return None
    h_ref = ws_norm(html_of(m))
    core.fresh()
    with MarkdownRenderer(max_line_length=L) as rend:
        w = rend.render(Document(m))
    f = judge(m, w, [L], h_ref, case.get('bystander'), case.get('by_lines') or (), case.get('length_clause', True))
    if f:
        f['kf'] = classify(m, f)
        if not f['kf'] and case.get('titlecap') and case['titlecap'][1]:
            fn = titlecap_finding(case['titlecap'][0])
            f['kf'] = fn(f) if fn else None
    return f
