"""C13 - every block token reports the source line on which it starts (E2 with line bookkeeping)."""
import re
from mc import core, trees, leafspell

ID = 'C13'
TECHNIQUE = ('exhaustive enumeration of all document trees with <= 3/4 block nodes x all spellings with <= 2 non-default '
             'choices among the 10 line-moving spelling options (and <= 1 among all 22); the writer records the line of '
             'every block, compared with line_number of the corresponding token in pre-order')
ASSUMPTIONS = ['if the token tree does not have the shape of the written tree the case is C03\'s, not C13\'s, and is skipped (counted)',
               'table rows/cells: header = table line, body row i = table line + 1 + i']
BOUNDS = {'quick': dict(n=3, depth=2, d_all=1, d_moving=2, n_moving=3), 'thorough': dict(n=4, depth=3, d_all=1, d_moving=2, n_moving=4)}
NSHARD = 64


def describe(tier):
    b = BOUNDS[tier]
    return dict(max_block_nodes=b['n'], max_depth=b['depth'], deviations_all_options=b['d_all'],
                deviations_line_moving_options=b['d_moving'], line_moving_options=trees.LINE_MOVING)


def jobs(tier):
    b = BOUNDS[tier]
    js = []
    for n in range(0, b['n'] + 1):
        ns = NSHARD if n >= 3 else 1
        for s in range(ns):
            js.append((n, b['depth'], b['d_all'], b['d_moving'], s, ns))
    js += leafspell.jobs()
    js.append(('lazy',))
    return js


def token_lines(doc):
    from mistletoe import block_token
    got = []

    def walk(t):
        for c in t.children or []:
            if isinstance(c, block_token.BlockToken) and type(c).__name__ not in ('TableRow', 'TableCell'):
                got.append((type(c).__name__, c.line_number, c))
                walk(c)
    walk(doc)
    return got


def check(md, rec):
    return check_lines(md, [(n.kind, ln + 1) for n, ln in rec if n.kind != 'linkdef'])


def check_lines(md, exp):
    """exp: [(writer kind, 1-based line)] in pre-order.  None / ('skip', why) / failure dict"""
    from mistletoe import Document
    from mistletoe.html_renderer import HtmlRenderer
    core.fresh()
    try:
        with core.time_limit(10):
            with HtmlRenderer():
                doc = Document(md)
    except (Exception, core.EvalTimeout):
        return ('skip', 'parse raises (C01)')
    got = token_lines(doc)
    src_lines = md.split('\n')
    exp = [(trees.KINDMAP[k], ln) for k, ln in exp]
    if [g[0] for g in got] != [e[0] for e in exp]:
        return ('skip', 'token tree has a different shape (C03)')
    wrong = [(g[0], g[1], e[1]) for g, e in zip(got, exp) if g[1] != e[1]]
    if wrong:
        return dict(sig='line-number-wrong:' + wrong[0][0], detail='(kind, reported, true): %r' % wrong[:4])
    # tables: rows and cells
    for g, e in zip(got, exp):
        if g[0] == 'Table':
            t = g[2]
            base = e[1]
            rows = [(t.header, base)] + [(row, base + 2 + i) for i, row in enumerate(t.children)]
            for row, want in rows:
                if row.line_number != want:
                    return dict(sig='line-number-wrong:TableRow', detail='reported %r true %r' % (row.line_number, want))
                for cell in row.children:
                    if cell.line_number != want:
                        return dict(sig='line-number-wrong:TableCell', detail='reported %r true %r' % (cell.line_number, want))
            # independent of how many rows the parser kept: a row that holds a word found on exactly one source line starts there
            for row in [t.header] + list(t.children):
                for w in re.findall(r'[A-Za-z][A-Za-z0-9]*', _text_of(row)):
                    at = [i for i, l in enumerate(src_lines, 1) if re.search(r'(?<![A-Za-z0-9])' + w + r'(?![A-Za-z0-9])', l)]
                    if len(at) == 1 and (row.line_number != at[0] or any(c.line_number != at[0] for c in row.children)):
                        return dict(sig='line-number-wrong:TableRow-located-by-word', detail='row holding %r reports %r (cells %r), the word is on line %r'
                                    % (w, row.line_number, [c.line_number for c in row.children], at[0]))
    return None


def _text_of(t):
    from mistletoe import span_token
    if isinstance(t, span_token.RawText):
        return t.content + ' '
    return ''.join(_text_of(c) for c in (getattr(t, 'children', None) or ()))


LEAF_KIND = {'fence': 'fence', 'atx': 'atx', 'setext': 'setext', 'indented': 'indented', 'indented-tab': 'indented', 'html': 'html',
             'table': 'table', 'para': 'para', 'hr': 'hr', 'atx-not': 'para', 'hr-not': 'para', 'table-not': 'para'}


def leaf_expectation(case, ctx, ln):
    """[(writer kind, 1-based line)] in pre-order for a leaf spelling placed in a context"""
    k = LEAF_KIND[case[0]]
    n = len(case[1])
    lead = case[3].get('lead', 0)       # blank (white-space-only) lines written before the block proper
    if ctx == 'alone':
        return [(k, 1 + lead)]
    if ctx == 'then-paragraph':
        return [(k, 1 + lead), ('para', n + 2)]
    if ctx == 'then-paragraph-directly':
        return [(k, 1 + lead), ('para', n + 1)]
    if ctx == 'after-paragraph':
        return [('para', 1), (k, 3 + lead)]
    if ctx == 'in-quote':
        return [('quote', 1), (k, 1 + lead)]
    if ctx == 'in-list-item':
        return [('list', 1), ('item', 1), ('para', 1), (k, 3 + lead)]
    if ctx == 'in-quote-then-text':
        return [('quote', 1), (k, 1 + lead), ('para', n + 1)]
    if ctx == 'in-list-item-then-text':
        return [('list', 1), ('item', 1), ('para', 1), (k, 3 + lead), ('para', n + 3)]
    raise KeyError(ctx)


def run_leaf_job(job):
    r = core.Result()
    for case in leafspell.cases_of_job(job):
        if case[0] not in LEAF_KIND:
            continue            # families that are whole small documents (list markers with tabs, lazy lines), not one leaf block
        r.states += 1
        for ctx in leafspell.CONTEXTS:
            x = leafspell.in_context(case, ctx)
            if x is None:
                continue
            md = x[0]
            exp = leaf_expectation(case, ctx, x[2])
            r.transitions += 1
            res = check_lines(md, exp)
            if isinstance(res, tuple):
                r.skip(res[1])
                continue
            r.validated += 1
            if res:
                r.fail(dict(markdown=md, lines=exp, family=case[0], context=ctx), res['sig'], res['detail'])
            r.outcome('leaf:' + case[0])
    r.sample(dict(space='leaf spellings', family=job[1]), 1)
    return r


LAZY_BLOCKS = {'para': (['g'], 'para'), 'atx': (['# g'], 'atx'), 'fence': (['```', 'c', '```'], 'fence'),
               'table': (['| a | b |', '|---|---|', '| c | d |'], 'table'), 'hr': (['***'], 'hr'), 'indented': (['    c'], 'indented')}
LAZY_LINES = [['==='], ['='], ['  =='], ['b'], ['===', '='], ['b', '==='], ['==='] * 3]


def lazy_documents():
    """a paragraph inside a block quote continued by lazy lines (no '>' marker) - among them lines that look like setext
    underlines, which must stay paragraph text - followed by further blocks inside the same container. -> (markdown, expectation)"""
    for lazy in LAZY_LINES:
        n = len(lazy)
        for bname, (blines, bkind) in LAZY_BLOCKS.items():
            # quote
            yield ('\n'.join(['> a'] + lazy + ['>'] + ['> ' + l for l in blines]) + '\n',
                   [('quote', 1), ('para', 1), (bkind, n + 3)])
            # quote in quote
            yield ('\n'.join(['> > a'] + lazy + ['> >'] + ['> > ' + l for l in blines]) + '\n',
                   [('quote', 1), ('quote', 1), ('para', 1), (bkind, n + 3)])
            # quote, later content after a second paragraph
            yield ('\n'.join(['> a'] + lazy + ['>', '> h'] + lazy + ['>'] + ['> ' + l for l in blines]) + '\n',
                   [('quote', 1), ('para', 1), ('para', n + 3), (bkind, 2 * n + 5)])
            # quote inside a list item
            yield ('\n'.join(['- > a'] + lazy + ['  >'] + ['  > ' + l for l in blines]) + '\n',
                   [('list', 1), ('item', 1), ('quote', 1), ('para', 1), (bkind, n + 3)])
        # two list items inside a quote, the first one continued lazily
        yield ('\n'.join(['> - a'] + lazy + ['> - g']) + '\n',
               [('quote', 1), ('list', 1), ('item', 1), ('para', 1), ('item', n + 2), ('para', n + 2)])
        # block after the quote
        yield ('\n'.join(['> a'] + lazy + ['', 'g']) + '\n', [('quote', 1), ('para', 1), ('para', n + 3)])
    # counts: long lists (marker width grows at the tenth item), tables with many rows, deep nesting, many blank lines
    for n in (9, 10, 11, 12, 30, 100, 101):
        for step in (1, 2, 3):
            lines, exp = [], [('list', 1)]
            for i in range(n):
                m = '%d. ' % (i + 1)
                exp += [('item', len(lines) + 1), ('para', len(lines) + 1)]
                lines += [m + 'i'] + [' ' * len(m) + 'c'] * (step - 1)
            yield ('\n'.join(lines) + '\n', exp)
        t = ['| h | k |', '|---|---|'] + ['| r%d | x |' % i for i in range(n)]
        yield ('\n'.join(['w', ''] + t) + '\n', [('para', 1), ('table', 3)])
        yield ('\n' * n + '# h\n' + '\n' * n + 'p\n', [('atx', n + 1), ('para', 2 * n + 2)])
        yield ('\n'.join(['p%d\n' % i for i in range(n)]) + '\n', [('para', 2 * i + 1) for i in range(n)])
    for n in (9, 10, 20, 50):
        yield ('> ' * n + 'w\n' + '> ' * n + '\n' + '> ' * n + '# h\n', [('quote', 1)] * n + [('para', 1), ('atx', 3)])
        yield ('- ' * n + 'w\n', [x for _ in range(n) for x in (('list', 1), ('item', 1))] + [('para', 1)])
    # items whose marker is followed by white space only (1-5 spaces, tabs): the content starts on the next line
    for marker in ('-', '1.', '10)'):
        for ws in ('', ' ', '  ', '   ', '    ', '     ', '\t', '\t\t', ' \t', '  \t '):
            ind = ' ' * (len(marker) + 1)
            yield (marker + ws + '\n' + ind + 'alpha\n', [('list', 1), ('item', 1), ('para', 2)])
            yield ('> ' + marker + ws + '\n> ' + ind + 'alpha\n', [('quote', 1), ('list', 1), ('item', 1), ('para', 2)])
            yield ('- a\n' + marker[:1].replace('1', '-') + ws + '\n  > q\n' if marker == '-' else marker + ' a\n' + marker.replace('1.', '2.').replace('10)', '11)') + ws + '\n' + ind + '> q\n',
                   [('list', 1), ('item', 1), ('para', 1), ('item', 2), ('quote', 3), ('para', 3)])
    # tables whose rows have fewer / as many / more cells than the delimiter row has columns (every cell reports the row's line)
    rows = ['| c1 |', '| c2 | d |', '| c3 | d | e |', '| c4 | d | e | f |', '|', '| | | |', '|---|---|', '| x | y |', '- | -', '| :-: | -- |', '| z |']
    for k in range(1, len(rows) + 1):
        for perm in __import__('itertools').permutations(rows, k) if k <= 2 else [tuple(rows[:k])]:
            t = ['| h | k |', '|---|---|'] + list(perm)
            yield ('\n'.join(t) + '\n', [('table', 1)])
            yield ('\n'.join(['w', ''] + ['> ' + l for l in t]) + '\n', [('para', 1), ('quote', 3), ('table', 3)])
            yield ('\n'.join(['- b', ''] + ['  ' + l for l in t]) + '\n', [('list', 1), ('item', 1), ('para', 1), ('table', 3)])


def run_lazy_job():
    r = core.Result()
    for md, exp in lazy_documents():
        r.states += 1
        r.transitions += 1
        res = check_lines(md, exp)
        if isinstance(res, tuple):
            r.skip(res[1])
            continue
        r.validated += 1
        if res:
            r.fail(dict(markdown=md, lines=exp, family='lazy'), res['sig'], res['detail'])
        r.outcome('lazy')
    r.sample(dict(space='lazy continuation lines inside quotes', lines=LAZY_LINES), 1)
    return r


def run_job(job):
    if job[0] == 'lazy':
        return run_lazy_job()
    if job[0] == 'leafspell':
        return run_leaf_job(job)
    n, depth, d_all, d_moving, shard, nshard = job
    r = core.Result()
    sps = list(trees.spellings(d_all))
    seen = {tuple(sorted(trees.option_label(o).items())) for o in sps}
    for o in trees.spellings(d_moving, trees.LINE_MOVING):
        key = tuple(sorted(trees.option_label(o).items()))
        if key not in seen:
            seen.add(key)
            sps.append(o)
    from checks import c03
    for i, blocks in enumerate(trees.all_docs(n, depth)):
        if i % nshard != shard:
            continue
        r.states += 1
        for o in sps:
            if not c03.applicable(blocks, o):
                r.skip('spelling option does not touch this tree')
                continue
            try:
                md, rec = trees.to_markdown(blocks, o, strict=True)
            except trees.Unwritable:
                r.skip('a written line reads as a thematic break (nested empty items)')
                continue
            r.transitions += 1
            res = check(md, rec)
            if isinstance(res, tuple):
                r.skip(res[1])
                continue
            r.validated += 1
            if res:
                r.fail(dict(markdown=md, spelling=trees.option_label(o), lines=[(x.kind, ln + 1) for x, ln in rec if x.kind != 'linkdef']),
                       res['sig'], res['detail'])
            r.outcome('blocks=%d' % min(len(rec), 6))
        if i < 2:
            md, rec = trees.to_markdown(blocks, trees.DEFAULTS)
            r.sample(dict(markdown=md, lines=[(x.kind, ln + 1) for x, ln in rec]), 1)
    return r


def replay(case):
    res = check_lines(case['markdown'], [tuple(x) for x in case['lines']])
    if res is None or isinstance(res, tuple):
        return None
    return res
