"""C15 - the same text gives the same result however it is supplied (E1 over the line alphabet + spec corpus)."""
import io
import os
import sys
import shutil
import tempfile
import itertools
import subprocess
from mc import core, configs, spaces

ID = 'C15'
TECHNIQUE = ('exhaustive enumeration of all texts of <= 3/4 lines over the line alphabet and of the 652 spec examples, with and '
             'without final newline, x {str, list with/without line ends, StringIO, real file via cli.convert_file, '
             'cli.main in-process (one file, ordered pairs), python -m mistletoe subprocess} x {Html, Markdown, LaTeX, Ast}; '
             'all forms must be byte-identical to the str form')
ASSUMPTIONS = ['inputs contain no line separator other than "\\n" (the property\'s domain)',
               'list form = text.split("\\n") minus one trailing empty string']
# '\ufeff# h': a text whose first character is U+FEFF (what an editor's byte order mark decodes to under utf-8): it is part of the
# text, and every way of supplying the text must treat it the same
L = spaces.LINES + ['é日', '$m$', '\ufeff# h', 'a\x00b']
BOUNDS = {'quick': dict(lines=2, deep=3, sub_lines=1), 'thorough': dict(lines=3, deep=4, sub_lines=2)}
# one line deeper over the lines whose handling depends on line ends / document end
LDEEP = ['foo', '', '```', '- a', '  b', '> q', '[l]: /u', '# h', '   ', '| a | b |', '|---|---|', '\\']
RENDERERS = {'Html': None, 'Markdown': 'mistletoe.markdown_renderer.MarkdownRenderer',
             'LaTeX': 'mistletoe.latex_renderer.LaTeXRenderer', 'Ast': 'mistletoe.ast_renderer.AstRenderer'}
OTHER_SEPS = set('\r\x0b\x0c\x1c\x1d\x1e\x85\u2028\u2029')
PAIR_TEXTS = ['foo\n', '# h', '- a\n  b\n', '```\ncode', '> q\n', '', '[l]: /u\n\n[l]\n', '| a | b |\n|---|---|\n| c | d |',
              '<div>\nx\n</div>\n', 'a\n\n', '    c\n', 'é日\n', '\ufeff- b\n']
_tmp = None
# long inputs whose length straddles the usual buffer sizes (a reader that works in blocks must not split a line there)
# the last two have no line ending: ONE physical line of the given length
LONG_PATTERNS = ['alpha beta *gamma* delta\n', 'x\n', '- item `c`\n  more\n', 'word ' * 30 + '\n', '> q\n\n', 'ab ', 'w']
LONG_SIZES = {'quick': [4095, 4096, 4097, 8191, 8192, 8193], 'thorough': list(range(4090, 4103)) + list(range(8186, 8199)) + [16383, 16384, 16385, 65535, 65536, 65537, 131072, 131073]}


def describe(tier):
    return dict(line_alphabet=L, max_lines=BOUNDS[tier]['lines'], deep_sub_alphabet=LDEEP, deep_lines=BOUNDS[tier]['deep'], subprocess_max_lines=BOUNDS[tier]['sub_lines'],
                renderers=list(RENDERERS), forms=['sequence Html/Ast/Markdown/Ast/LaTeX/Html without resets', 'str', 'list+nl', 'list-nl', 'StringIO', 'file via cli.convert_file', 'cli.main', 'cli.main pairs', 'python -m mistletoe'],
                pair_texts=PAIR_TEXTS, long_inputs=dict(patterns=LONG_PATTERNS, sizes=LONG_SIZES[tier]))


def jobs(tier):
    b = BOUNDS[tier]
    js = []
    if tier == 'quick':
        js += [('lines', i, None, b['lines']) for i in range(len(L))]
    else:
        js += [('lines', i, j, b['lines']) for i in range(len(L)) for j in range(len(L))]
        js += [('lines', i, None, 1) for i in range(len(L))]
    js += [('deep', i, j, b['deep']) for i in range(len(LDEEP)) for j in range(len(LDEEP))]
    js += [('spec', lo, lo + 16) for lo in range(0, 652, 16)]
    js += [('pairs', i) for i in range(len(PAIR_TEXTS))]
    js += [('long', i, tier) for i in range(len(LONG_PATTERNS))]
    js += [('subprocess', i, b['sub_lines']) for i in range(len(L))]
    return js


def tmpdir():
    global _tmp
    if _tmp is None or not os.path.isdir(_tmp):
        _tmp = tempfile.mkdtemp(prefix='c15_')
    return _tmp


def drop_tmpdir():
    global _tmp
    if _tmp is not None:
        shutil.rmtree(_tmp, ignore_errors=True)
        _tmp = None


def list_form(text, keep):
    parts = text.split('\n')
    if parts and parts[-1] == '':
        parts.pop()
    return [p + '\n' for p in parts] if keep else parts


def render(name, src):
    from mistletoe import Document
    core.fresh()
    with configs.renderer_class(name)() as rend:
        return rend.render(Document(src))


def write_file(text, name='in.md'):
    path = os.path.join(tmpdir(), name)
    with open(path, 'w', encoding='utf-8', newline='') as f:
        f.write(text)
    return path


def cli_main(name, paths, stdout_encoding='utf-8'):
    """run cli.main in-process with sys.stdout replaced; returns bytes"""
    from mistletoe import cli
    core.fresh()
    buf = io.BytesIO()
    wrapper = io.TextIOWrapper(buf, encoding=stdout_encoding, errors='replace', newline='')
    old = sys.stdout
    sys.stdout = wrapper
    try:
        args = (['-r', RENDERERS[name]] if RENDERERS[name] else []) + list(paths)
        cli.main(args)
        wrapper.flush()
    finally:
        sys.stdout = old
    return buf.getvalue()


def cli_convert_file(name, path):
    from mistletoe import cli
    core.fresh()
    buf = io.BytesIO()
    wrapper = io.TextIOWrapper(buf, encoding='utf-8', newline='')
    old = sys.stdout
    sys.stdout = wrapper
    try:
        cli.convert_file(path, configs.renderer_class(name))
        wrapper.flush()
    finally:
        sys.stdout = old
    return buf.getvalue()


def forms_of(text, name):
    """yield (form, output as bytes)"""
    yield 'list+nl', render(name, list_form(text, True)).encode()
    yield 'list-nl', render(name, list_form(text, False)).encode()
    yield 'StringIO', render(name, io.StringIO(text)).encode()
    path = write_file(text)
    with open(path, 'r', encoding='utf-8') as fin:
        yield 'file-object', render(name, fin).encode()
    yield 'cli.convert_file', cli_convert_file(name, path)
    yield 'cli.main', cli_main(name, [path])
    if not text.isascii():
        # the tool writes UTF-8 bytes whatever the text layer of standard output is set to
        yield 'cli.main with a latin-1 stdout', cli_main(name, [path], 'latin-1')


def check_text(r, text, cross=None):
    """all forms agree with the str form; returns {renderer: bytes}"""
    if any(c in OTHER_SEPS for c in text):
        r.skip('contains a line separator other than \\n')
        return None
    r.states += 1
    outs = {}
    for name in RENDERERS:
        try:
            with core.time_limit(20):
                base = render(name, text).encode()
        except (Exception, core.EvalTimeout):
            r.skip('str form raises (C01)')
            continue
        outs[name] = base
        r.transitions += 1
        try:
            for form, out in forms_of(text, name):
                r.transitions += 1
                r.validated += 1
                if out != base:
                    r.fail(dict(text=text, renderer=name, form=form), 'form-differs:' + form, expected=base.decode(), observed=out.decode('utf-8', 'replace'))
                else:
                    r.outcome('same:' + form)
        except (Exception, SystemExit) as e:
            r.fail(dict(text=text, renderer=name, form='?'), 'form-raises:' + core.exc_sig(e), repr(e))
    return outs


SEQUENCE = ['Html', 'Ast', 'Markdown', 'Ast', 'LaTeX', 'Html']


def check_sequence(r, text, outs):
    """the same text supplied in different forms to renderers used one after the other in one process, without any reset
    in between (what a program that converts one document to several formats does): every result must equal the one the
    same renderer gives from pristine state"""
    from mistletoe import Document
    if not outs:
        return
    core.fresh()
    forms = [('str', lambda: text), ('list+nl', lambda: list_form(text, True)), ('StringIO', lambda: io.StringIO(text))]
    for i, name in enumerate(SEQUENCE):
        if name not in outs:
            continue
        fname, mk = forms[i % len(forms)]
        r.transitions += 1
        r.validated += 1
        try:
            with configs.renderer_class(name)() as rend:
                got = rend.render(Document(mk())).encode()
        except Exception as e:
            r.fail(dict(text=text, renderer=name, form='sequence'), 'form-raises-in-sequence:' + core.exc_sig(e), repr(e))
            return
        if got != outs[name]:
            r.fail(dict(text=text, renderer=name, form='sequence'), 'form-differs-in-sequence:%s:%s' % (name, fname),
                   expected=outs[name].decode(), observed=got.decode('utf-8', 'replace'))
            return
    r.outcome('same:sequence')


def run_lines(r, ws):
    t0 = '\n'.join(ws)
    o0 = check_text(r, t0)
    o1 = check_text(r, t0 + '\n')
    check_sequence(r, t0 + '\n', o1)
    if ws[-1] != '' and o0 is not None and o1 is not None:
        for name in o0:
            if name in o1:
                r.validated += 1
                if o0[name] != o1[name]:
                    r.fail(dict(text=t0, renderer=name, form='final-newline'), 'final-newline-changes-output',
                           expected=o1[name].decode(), observed=o0[name].decode())


def replay(case):
    try:
        return _replay(case)
    finally:
        drop_tmpdir()


def _replay(case):
    r = core.Result()
    text, name, form = case['text'], case['renderer'], case['form']
    if form == 'final-newline':
        a, b = render(name, text), render(name, text + '\n')
        return None if a == b else dict(sig='final-newline-changes-output', expected=b, observed=a)
    if form == 'pair':
        return check_pair(name, case['text'], case['text2'])
    if form == 'sequence':
        rr = core.Result()
        outs = {}
        for nm in RENDERERS:
            try:
                outs[nm] = render(nm, text).encode()
            except Exception:
                pass
        check_sequence(rr, text, outs)
        for (kf, sig), (n, fl) in rr.failures.items():
            return fl[0]
        return None
    if form == 'subprocess':
        return check_subprocess(name, [text])
    base = render(name, text).encode()
    try:
        for f, out in forms_of(text, name):
            if f == form and out != base:
                return dict(sig='form-differs:' + form, expected=base.decode(), observed=out.decode('utf-8', 'replace'))
    except (Exception, SystemExit) as e:
        return dict(sig='form-raises:' + core.exc_sig(e), detail=repr(e))
    return None


def check_pair(name, t1, t2):
    p1, p2 = write_file(t1, 'a.md'), write_file(t2, 'b.md')
    want = render(name, t1).encode() + render(name, t2).encode()
    got = cli_main(name, [p1, p2])
    if got != want:
        return dict(sig='cli-pair-not-concatenation', expected=want.decode(), observed=got.decode('utf-8', 'replace'))
    # a file named twice is converted twice, in the order named
    want3 = want + render(name, t1).encode()
    got3 = cli_main(name, [p1, p2, p1])
    if got3 != want3:
        return dict(sig='cli-repeated-file-not-concatenation', expected=want3.decode(), observed=got3.decode('utf-8', 'replace'))
    return None


def check_subprocess(name, texts):
    paths = [write_file(t, 's%d.md' % i) for i, t in enumerate(texts)]
    want = b''.join(render(name, t).encode() for t in texts)
    args = [sys.executable, '-m', 'mistletoe'] + (['-r', RENDERERS[name]] if RENDERERS[name] else []) + paths
    env = dict(os.environ, PYTHONPATH=core.REPO, PYTHONDONTWRITEBYTECODE='1', PYTHONIOENCODING='utf-8')
    p = subprocess.run(args, capture_output=True, cwd=core.REPO, env=env)
    if p.returncode != 0 or p.stdout != want:
        return dict(sig='subprocess-cli-differs', expected=want.decode(), observed=p.stdout.decode('utf-8', 'replace') + p.stderr.decode('utf-8', 'replace')[-300:])
    if not want.isascii():
        p = subprocess.run(args, capture_output=True, cwd=core.REPO, env=dict(env, PYTHONIOENCODING='latin-1'))
        if p.returncode != 0 or p.stdout != want:
            return dict(sig='subprocess-cli-differs:latin-1-stdout', expected=want.decode(), observed=p.stdout.decode('utf-8', 'replace') + p.stderr.decode('utf-8', 'replace')[-300:])
    return None


def run_job(job):
    try:
        return _run_job(job)
    finally:
        drop_tmpdir()          # pool workers do not run atexit handlers: remove the scratch files per job


def _run_job(job):
    r = core.Result()
    kind = job[0]
    if kind == 'lines':
        _, first, second, k = job
        for n in range(1, k + 1):
            if second is not None and n < 2:
                continue
            for rest in itertools.product(L, repeat=n - 1):
                if second is not None and rest[0] != L[second]:
                    continue
                run_lines(r, (L[first],) + rest)
        r.sample(dict(lines=[L[first], L[1]]), 1)
    elif kind == 'deep':
        _, i, j, k = job
        for rest in itertools.product(LDEEP, repeat=k - 2):
            run_lines(r, (LDEEP[i], LDEEP[j]) + rest)
    elif kind == 'long':
        pat = LONG_PATTERNS[job[1]]
        for size in LONG_SIZES[job[2]]:
            text = (pat * (size // len(pat) + 2))[:size]
            check_text(r, text)
            check_text(r, 'z' + text)
        r.sample(dict(space='long', pattern=pat, sizes=LONG_SIZES[job[2]]), 1)
    elif kind == 'spec':
        from checks import c02
        for ex in c02.corpus()[job[1]:job[2]]:
            md = ex['markdown']
            check_text(r, md)
            if md.endswith('\n') and not md.endswith('\n\n'):
                run_lines(r, md[:-1].split('\n'))
        r.sample(dict(spec_examples=[job[1] + 1, job[2]]), 1)
    elif kind == 'pairs':
        t1 = PAIR_TEXTS[job[1]]
        for t2 in PAIR_TEXTS:
            for name in RENDERERS:
                r.states += 1
                r.transitions += 1
                r.validated += 1
                try:
                    f = check_pair(name, t1, t2)
                except (Exception, SystemExit) as e:
                    f = dict(sig='form-raises:' + core.exc_sig(e), detail=repr(e))
                if f:
                    r.fail(dict(text=t1, text2=t2, renderer=name, form='pair'), f['sig'], f.get('detail', ''), expected=f.get('expected'), observed=f.get('observed'))
                else:
                    r.outcome('same:cli.main pairs')
    elif kind == 'subprocess':
        _, first, k = job
        names = list(RENDERERS)
        idx = 0
        for n in range(1, k + 1):
            for rest in itertools.product(L, repeat=n - 1):
                ws = (L[first],) + rest
                for text in ('\n'.join(ws), '\n'.join(ws) + '\n'):
                    name = names[idx % len(names)] if n > 1 else None
                    idx += 1
                    for nm in ([name] if name else names):
                        r.states += 1
                        r.transitions += 1
                        r.validated += 1
                        f = check_subprocess(nm, [text])
                        if f:
                            r.fail(dict(text=text, renderer=nm, form='subprocess'), f['sig'], expected=f.get('expected'), observed=f.get('observed'))
                        else:
                            r.outcome('same:python -m mistletoe')
    return r
